#!/bin/bash
# thorough_all.sh [ids...]: thorough tier of the given checks (default all), evidence/replays redirected
export VERIF_EVID=/tmp/thorough-evid-$$ VERIF_REPLAYS=$PWD/thorough-replays
mkdir -p $VERIF_EVID $VERIF_REPLAYS
IDS=${@:-C15 C16 C05 C01 C10 C03 C04 C06 C07 C08 C09 C13 C14 C17 C18 C19}
for p in $IDS; do
  ./check $p thorough 2>&1 | grep -E "^\[C|VIOLATION|HARNESS|KNOWN" | cut -c1-400
  python3 -c "
import json,sys
e=json.load(open('$VERIF_EVID/$p.json')); c=e['coverage']
print('  evidence:', {k:c[k] for k in ('evaluations','distinct_nontrivial','runs_per_hour','distinct_abstract_states') if k in c}, c.get('fault_kinds_fired'), {k:v for k,v in c.items() if k.startswith('distinct_')})" 2>/dev/null
done
