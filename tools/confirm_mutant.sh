#!/bin/bash
# confirm_mutant.sh <name> <dir-with-mutant/patch.diff,demo.cpp> : independent confirmation in a fresh scratch worktree
# prints: applies / builds / tests pass / demo fails with change / demo passes without
N=$1; SRC=$2; W=/tmp/confirm_$N
git -C /repo worktree remove --force $W >/dev/null 2>&1; rm -rf $W
/verif/tools/mkworktree.sh $W >/dev/null || exit 1
cd $W
git apply $SRC/patch.diff || { echo "RESULT $N: patch does not apply"; exit 1; }
cmake -G Ninja -S . -B _b -DBUILD_TESTS=ON -DBUILD_EXAMPLE=OFF -Wno-dev >/dev/null 2>&1 && cmake --build _b >/dev/null 2>&1 || { echo "RESULT $N: does not build"; exit 1; }
T=$(cd _b && ctest 2>&1 | grep -c "100% tests passed")
mkdir -p mutant; cp $SRC/demo.cpp mutant/
[ -f $SRC/run.sh ] && cp $SRC/run.sh mutant/
sed -i "s#/tmp/mut[0-9A-Z]*_[A-Za-z0-9]*#$W#g" mutant/demo.cpp mutant/run.sh 2>/dev/null
g++ -std=c++17 -I$W/include mutant/demo.cpp -L$W/_b -lezc3d -Wl,-rpath,$W/_b -o mutant/demo 2>/dev/null || { echo "RESULT $N: demo does not compile"; exit 1; }
(cd mutant && timeout 600 ./demo >/tmp/confirm_$N.with.log 2>&1); WITH=$?
git apply -R $SRC/patch.diff && cmake --build _b >/dev/null 2>&1
(cd mutant && timeout 600 ./demo >/tmp/confirm_$N.without.log 2>&1); WITHOUT=$?
git apply $SRC/patch.diff && cmake --build _b >/dev/null 2>&1
echo "RESULT $N: tests_pass=$T demo_with_change_exit=$WITH demo_without_change_exit=$WITHOUT"
