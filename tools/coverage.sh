#!/bin/bash
# coverage.sh [cases-per-family]: which library functions / lines do the simulated runs never reach?
# Builds a gcov-instrumented simulator in a scratch directory under /tmp (removed at the end), runs every family of
# generator for a while and prints the ezc3d functions that were never executed and the number of unexecuted lines per file.
N=${1:-600}
D=$(mktemp -d /tmp/verif-cov-XXXXXX)
WRAP="-Wl,--wrap=fopen64,--wrap=fclose,--wrap=read,--wrap=write,--wrap=writev,--wrap=lseek64,--wrap=ioctl,--wrap=rename,--wrap=remove,--wrap=_ZNSi4readEPcl,--wrap=_ZNSi8readsomeEPcl"
for f in /repo/src/*.cpp; do g++ -std=c++17 -O0 -g --coverage -I/repo/include -I/verif/sim -pthread -DSIM_ALLOC_SEAM -w -c $f -o $D/ez_$(basename ${f%.cpp}).o & done
for f in /verif/sim/*.cpp; do g++ -std=c++17 -O1 -g -I/repo/include -I/verif/sim -pthread -DSIM_ALLOC_SEAM -w -c $f -o $D/sim_$(basename ${f%.cpp}).o & done
wait
g++ --coverage -pthread -rdynamic -static-libstdc++ $WRAP $D/*.o -ldl -o $D/simc3d || exit 2
cd $D
for p in C01 C03 C04 C05 C06 C07 C08 C09 C10 C13 C14 C17; do ./simc3d worker --prop $p --tier quick --seed 1 --from 0 --count $N >/dev/null 2>&1; done
./simc3d worker --prop C15 --tier quick --seed 1 --from 0 --count $((N/15+1)) >/dev/null 2>&1
./simc3d worker --prop C16 --tier quick --seed 1 --from 0 --count $((N/20+1)) >/dev/null 2>&1
./simc3d worker --prop C18 --tier quick --seed 1 --from 0 --count $((N/10+1)) >/dev/null 2>&1
echo "== library functions never executed"
gcov -f -o $D $D/ez_*.gcda 2>/dev/null | grep -A1 "^Function '_ZN5ezc3d\|^Function '_ZNK5ezc3d" | grep -B1 "executed:0.00%" | grep Function | sed "s/Function '//; s/'$//" | c++filt | sort
echo "== unexecuted lines per file (print() bodies excluded)"
for g in $D/*.cpp.gcov; do b=$(basename $g .gcov); case $b in ezc3d.cpp|Parameters.cpp|Parameter.cpp|Group.cpp|Data.cpp|Header.cpp|Frame.cpp|Points.cpp|Analogs.cpp|Subframe.cpp|Point.cpp|Channel.cpp) echo "$b $(grep -c '#####' $g) of $(grep -vc '^ *-:' $g)";; esac; done
[ -n "$KEEP" ] && echo "kept $D" || { cd /; rm -rf $D; }
