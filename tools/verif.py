#!/usr/bin/env python3
"""Supervisor for the ezc3d deterministic simulator: build cache, workers, gate, evidence.

usage: verif.py check <PROP> <quick|thorough>
       verif.py replay <file>
       verif.py build <variant>
       verif.py selftest
Standard library only.
"""
import hashlib, json, os, re, subprocess, sys, time, shutil, glob, signal, tempfile

VERIF = os.path.dirname(os.path.dirname(os.path.abspath(__file__)))
REPO = os.environ.get("VERIF_REPO", "/repo")
SIM = os.path.join(VERIF, "sim")
BUILD = os.environ.get("VERIF_BUILD", os.path.join(VERIF, "build"))   # scratch runs against modified copies of /repo may keep their builds elsewhere
EVID = os.environ.get("VERIF_EVID", os.path.join(VERIF, "evidence"))      # overridden when a scratch copy of the repo is checked
REPLAYS = os.environ.get("VERIF_REPLAYS", os.path.join(VERIF, "replays"))
KNOWN = os.path.join(VERIF, "KNOWN_FINDINGS.txt")
NCPU = os.cpu_count() or 4

WRAP = "-Wl,--wrap=fopen64,--wrap=fclose,--wrap=read,--wrap=write,--wrap=writev,--wrap=lseek64,--wrap=ioctl,--wrap=rename,--wrap=remove,--wrap=_ZNSi4readEPcl,--wrap=_ZNSi8readsomeEPcl"
VARIANTS = {
    "plain": ("g++", "-O1 -g -DSIM_ALLOC_SEAM"),
    "vg": ("g++", "-O1 -g -DSIM_VALGRIND"),
    "asan": ("clang++", "-O1 -g -fsanitize=address -fno-omit-frame-pointer -D_GLIBCXX_ASSERTIONS -DSIM_ASAN"),
    "tsan": ("clang++", "-O1 -g -fsanitize=thread -fno-omit-frame-pointer -DSIM_TSAN"),
}

REAL_STUB = {
    "ezc3d (all of /repo/src, /repo/include, current working tree)": "real, unmodified, no source hooks",
    "std::fstream / std::filebuf / __basic_file (static libstdc++)": "real",
    "libc fopen64/fclose/read/write/writev/lseek64 under /sim/": "stub: in-memory SimDisk with fault injection (link-time --wrap)",
    "std::istream::read as called by ezc3d": "real, intercepted (count, budget, yield point)",
    "operator new/delete": "stub in the plain variant (size tracking, seeded garbage fill, heap budget); sanitizer allocator in asan/tsan",
    "thread scheduling (C18)": "stub: real threads, one runnable at a time, seeded choice at every yield point",
    "clocks, timers, network": "absent in ezc3d; simulated time is reported as logical steps",
}


def log(msg):
    print(msg, flush=True)


def sha_tree():
    h = hashlib.sha1()
    files = sorted(glob.glob(os.path.join(REPO, "src", "*.cpp")) + glob.glob(os.path.join(REPO, "include", "*.h")) +
                   glob.glob(os.path.join(SIM, "*.cpp")) + glob.glob(os.path.join(SIM, "*.h")))
    for f in files:
        h.update(f.encode())
        with open(f, "rb") as fh:
            h.update(fh.read())
    return h.hexdigest()[:16]


def build(variant):
    cxx, flags = VARIANTS[variant]
    key = sha_tree() + "-" + hashlib.sha1((cxx + flags).encode()).hexdigest()[:6]
    out = os.path.join(BUILD, f"{variant}-{key}")
    exe = os.path.join(out, "simc3d")
    if os.path.exists(exe):
        return exe
    tmp = out + ".tmp%d" % os.getpid()
    shutil.rmtree(tmp, ignore_errors=True)
    os.makedirs(tmp)
    t0 = time.time()
    common = f"-std=c++17 -I{REPO}/include -I{SIM} -pthread {flags}"
    procs = []
    for f in sorted(glob.glob(os.path.join(REPO, "src", "*.cpp"))):
        o = os.path.join(tmp, "ez_" + os.path.basename(f)[:-4] + ".o")
        procs.append((f, subprocess.Popen(f"{cxx} {common} -w -c {f} -o {o}", shell=True, stderr=subprocess.PIPE)))
    for f in sorted(glob.glob(os.path.join(SIM, "*.cpp"))):
        o = os.path.join(tmp, "sim_" + os.path.basename(f)[:-4] + ".o")
        procs.append((f, subprocess.Popen(f"{cxx} {common} -w -c {f} -o {o}", shell=True, stderr=subprocess.PIPE)))
    bad = False
    for f, p in procs:
        _, err = p.communicate()
        if p.returncode != 0:
            sys.stderr.write(f"compile failed: {f}\n{err.decode(errors='replace')[:4000]}\n")
            bad = True
    if bad:
        shutil.rmtree(tmp, ignore_errors=True)
        raise SystemExit(3)
    link = f"{cxx} {flags} -pthread -rdynamic -static-libstdc++ {WRAP} {tmp}/*.o -ldl -o {tmp}/simc3d"
    r = subprocess.run(link, shell=True, stderr=subprocess.PIPE)
    if r.returncode != 0:
        sys.stderr.write("link failed:\n" + r.stderr.decode(errors="replace")[:4000])
        shutil.rmtree(tmp, ignore_errors=True)
        raise SystemExit(3)
    for o in glob.glob(os.path.join(tmp, "*.o")):
        os.unlink(o)
    try:
        os.rename(tmp, out)
    except OSError:
        shutil.rmtree(tmp, ignore_errors=True)  # somebody else built it meanwhile
    # prune old builds of this variant (keep the 3 most recent)
    olds = sorted([d for d in glob.glob(os.path.join(BUILD, variant + "-*")) if os.path.isdir(d) and ".tmp" not in d], key=os.path.getmtime)
    for d in olds[:-3]:
        shutil.rmtree(d, ignore_errors=True)
    log(f"[build] {variant} built in {time.time() - t0:.1f}s -> {exe}")
    return exe


# ---- tier plans: (variant, number of cases, workers) per property ---------------------------
def tier_plan(prop, tier):
    q = tier == "quick"
    P = {
        "C01": [("plain", 40000 if q else 2000000)],
        "C03": [("plain", 30000 if q else 1500000)],
        "C04": [("plain", 8000 if q else 400000)],
        "C05": [("plain", 40000 if q else 2000000)],
        "C06": [("plain", 30000 if q else 1500000)],
        "C07": [("plain", 40000 if q else 2000000)],
        "C08": [("plain", 30000 if q else 1500000)],
        "C09": [("plain", 40000 if q else 2000000)],
        "C10": [("plain", 30000 if q else 1500000)],
        "C13": [("asan", 4000 if q else 200000)],
        "C14": [("plain", 8000 if q else 400000), ("vg", 128 if q else 4000)],
        "C15": [("plain", 2000 if q else 30000)],
        "C16": [("plain", 500 if q else 6000), ("asan", 100 if q else 2500)],
        "C17": [("plain", 960 if q else 9600)],
        "C18": [("plain", 400 if q else 100000), ("tsan", 90 if q else 12000), ("asan", 300 if q else 30000)],
    }
    return P[prop]


BUDGET_S = {"quick": 75, "thorough": 1100}


def launcher(variant):
    if variant == "vg":
        return ["valgrind", "-q", "--tool=memcheck", "--error-limit=no", "--log-file=/dev/null"]
    return []


class Worker:
    def __init__(self, exe, prop, tier, seed, indices, wid, variant, scratch, nworkers=1):
        self.exe, self.prop, self.tier, self.seed, self.wid, self.variant = exe, prop, tier, seed, wid, variant
        self.nworkers = nworkers
        self.pending = list(indices)
        self.scratch = scratch
        self.proc = None
        self.cur = None
        self.buf = b""
        self.last_out = time.time()
        self.done = False
        self.crashes = []   # (index, alt, exit status, tail of output)
        self.tail = []
        self.start()

    def start(self):
        if not self.pending:
            self.done = True
            return
        self.prog = os.path.join(self.scratch, f"prog_{self.variant}_{self.wid}")
        # indices are passed explicitly in chunks so that a restarted worker continues where the dead one stopped
        chunk = self.pending[:4000]
        env = dict(os.environ)
        env["ASAN_SYMBOLIZER_PATH"] = "/usr/bin/llvm-symbolizer-14"
        env["TSAN_OPTIONS"] = "external_symbolizer_path=/usr/bin/llvm-symbolizer-14"
        self.chunk = chunk
        pin = None
        if self.prop == "C18":
            # the scheduler lets exactly one of the case's threads run at a time: on one CPU a hand-over is a plain context
            # switch, across CPUs it is an inter-processor wake-up (5x slower in this VM). Which thread runs is unaffected.
            cpus = sorted(os.sched_getaffinity(0))
            step = max(1, len(cpus) // max(1, self.nworkers))
            cpu = cpus[(self.wid * step) % len(cpus)]
            pin = lambda: os.sched_setaffinity(0, {cpu})
        self.proc = subprocess.Popen(launcher(self.variant) + [self.exe, "worker", "--prop", self.prop, "--tier", self.tier, "--seed", str(self.seed),
                                      "--only", ",".join(map(str, chunk)), "--progress", self.prog],
                                     stdout=subprocess.PIPE, stderr=subprocess.STDOUT, env=env, preexec_fn=pin)
        os.set_blocking(self.proc.stdout.fileno(), False)
        self.last_out = time.time()
        self.cur = None

    def progress_moved(self):
        """True if the worker's progress word (case index, alternative / step counter) changed since the last look."""
        cur = self.read_alt()
        moved = cur != getattr(self, "last_progress", None)
        self.last_progress = cur
        return moved

    def read_alt(self):
        try:
            with open(self.prog, "rb") as f:
                b = f.read(16)
            if len(b) == 16:
                idx = int.from_bytes(b[:8], "little")
                alt = int.from_bytes(b[8:16], "little")
                return idx, alt - 1
        except OSError:
            pass
        return None, -1


def run_workers(exe, variant, prop, tier, seed, ncases, budget_s, collect):
    nworkers = min(NCPU, 8 if variant in ("asan", "tsan") else NCPU, max(1, ncases))
    if variant == "vg":
        stalled = 200
    scratch = tempfile.mkdtemp(prefix="verif-prog-")
    workers = []
    for w in range(nworkers):
        idx = list(range(w, ncases, nworkers))
        workers.append(Worker(exe, prop, tier, seed, idx, w, variant, scratch, nworkers))

    def consume(wk, data):
        wk.last_out = time.time()
        wk.buf += data
        while b"\n" in wk.buf:
            line, wk.buf = wk.buf.split(b"\n", 1)
            s = line.decode(errors="replace")
            wk.tail.append(s)
            if len(wk.tail) > 120:
                wk.tail = wk.tail[-120:]
            if s.startswith("BEGIN "):
                wk.cur = int(s[6:])
            elif s.startswith("RES "):
                wk.cur_done = wk.cur
                if wk.cur in wk.pending:
                    wk.pending.remove(wk.cur)
                wk.cur = None
                collect(s, variant)
            else:
                collect(s, variant)

    t0 = time.time()
    # a case normally takes well under a second; a worker silent for this long is stuck in one (hang) or the machine is
    # badly overloaded. The limit has to stay well below the time budget or a hang would simply eat the budget.
    stalled_limit = 200 if variant == "vg" else max(15, min(60, budget_s / 4))
    timed_out = False
    while True:
        alive = False
        for wk in workers:
            if wk.done:
                continue
            alive = True
            p = wk.proc
            try:
                data = p.stdout.read()
            except (BlockingIOError, OSError):
                data = None
            if data:
                consume(wk, data)
            rc = p.poll()
            if rc is not None and not data:
                # drain
                try:
                    rest = p.stdout.read()
                except (BlockingIOError, OSError):
                    rest = None
                if rest:
                    consume(wk, rest)   # (output that arrived between the read above and the poll: parse it like any other)
                    continue
                finished_clean = any(t == "DONE" for t in wk.tail[-5:])
                if finished_clean and rc == 0:
                    for i in wk.chunk:
                        if i in wk.pending:
                            wk.pending.remove(i)
                    wk.tail = []
                    wk.start()
                else:
                    idx = wk.cur
                    pi, alt = wk.read_alt()
                    if idx is None:
                        idx = pi
                    wk.crashes.append((idx, alt if pi == idx else -1, rc, "\n".join(wk.tail[-60:])))
                    collect(f"WORKERDIED i={idx} rc={rc}", variant)
                    if idx in wk.pending:
                        wk.pending.remove(idx)
                    wk.tail = []
                    wk.start()
            elif time.time() - wk.last_out > stalled_limit / 2 and wk.progress_moved():
                wk.last_out = time.time()   # silent, but the case is working through its alternatives / steps: alive
            elif time.time() - wk.last_out > stalled_limit:
                idx = wk.cur
                pi, alt = wk.read_alt()
                p.kill()
                p.wait()
                wk.crashes.append((idx, alt if pi == idx else -1, "watchdog", "\n".join(wk.tail[-20:])))
                collect(f"WORKERDIED i={idx} rc=watchdog", variant)
                if idx in wk.pending:
                    wk.pending.remove(idx)
                wk.tail = []
                wk.start()
        if not alive:
            break
        if time.time() - t0 > budget_s:
            timed_out = True
            for wk in workers:
                if not wk.done and wk.proc and wk.proc.poll() is None:
                    stuck_for = time.time() - wk.last_out
                    idx = wk.cur
                    pi, alt = wk.read_alt()
                    wk.proc.kill()
                    wk.proc.wait()
                    if idx is not None and stuck_for > 10:
                        # the budget ran out while this worker had been silent inside one case for a long time
                        wk.crashes.append((idx, alt if pi == idx else -1, "watchdog", "\n".join(wk.tail[-20:])))
                        collect(f"WORKERDIED i={idx} rc=watchdog", variant)
                wk.done = True
            break
        time.sleep(0.02)
    crashes = []
    for wk in workers:
        crashes += wk.crashes
    shutil.rmtree(scratch, ignore_errors=True)
    return crashes, timed_out, nworkers


def load_known():
    findings, fixed = {}, []
    if os.path.exists(KNOWN):
        for line in open(KNOWN):
            line = line.strip()
            m = re.match(r"finding:\s+property=(\S+)\s+key=(\S+)\s+(.*)", line)
            if m:
                findings[m.group(2)] = (m.group(1), m.group(3))
            elif line.startswith("fixed:"):
                fixed.append(line)
    return findings, fixed


def key_matches(key, known):
    """exact match, or a listed key ending in '*' as a prefix pattern"""
    if key is None:
        return None
    if key in known:
        return key
    import fnmatch
    for k in known:
        if any(ch in k for ch in "*?[") and fnmatch.fnmatchcase(key, k):
            return k
    return None


def gate(exe, prop, tier, seed, index, alt, key, shrink=True, variant="plain"):
    t_gate = time.time()
    try:
        return gate_inner(exe, prop, tier, seed, index, alt, key, shrink, variant)
    finally:
        if os.environ.get("VERIF_TIMING"):
            sys.stderr.write(f"[timing] gate {variant} case {index} alt {alt} key {key} shrink={shrink}: {time.time() - t_gate:.1f}s\n")


def gate_inner(exe, prop, tier, seed, index, alt, key, shrink=True, variant="plain"):
    os.makedirs(REPLAYS, exist_ok=True)
    out = os.path.join(REPLAYS, f"{prop}-{seed}-{index}" + (f"-a{alt}" if alt is not None and alt >= 0 else "") + ".replay")
    cmd = launcher(variant) + [exe, "gate", "--prop", prop, "--tier", tier, "--seed", str(seed), "--index", str(index), "--out", out]
    if key:
        cmd += ["--key", key]
    if alt is not None and alt >= 0:
        cmd += ["--alt", str(alt)]
    if not shrink:
        cmd += ["--no-shrink"]
    env = dict(os.environ)
    env["ASAN_SYMBOLIZER_PATH"] = "/usr/bin/llvm-symbolizer-14"
    env["TSAN_OPTIONS"] = "external_symbolizer_path=/usr/bin/llvm-symbolizer-14"
    r = subprocess.run(cmd, stdout=subprocess.PIPE, stderr=subprocess.STDOUT, env=env, timeout=3600)
    txt = r.stdout.decode(errors="replace")
    m = re.search(r"GATE result=ok key=(\S+) replay=(\S+) kind=(\S+) detail=(.*)", txt)
    if r.returncode == 0 and m:
        gkey, path, detail = m.group(1), m.group(2), m.group(4)
        # fresh-process replay must reproduce the same key
        # (a violation whose trace differs from run to run - the gate says "+unstable" - gets three attempts)
        for attempt in range(3 if "+unstable" in m.group(3) else 1):
            r2 = subprocess.run(launcher(variant) + [exe, "replay", path], stdout=subprocess.PIPE, stderr=subprocess.STDOUT, env=env, timeout=600)
            t2 = r2.stdout.decode(errors="replace")
            if f"key={gkey}" in t2:
                break
        if f"key={gkey}" not in t2:
            return ("nondeterministic", gkey, path, "fresh-process replay did not reproduce: " + t2[-300:])
        if "+unstable" in m.group(3):
            detail += " [the trace of this violation differs between runs of the same plan]"
        return ("ok", gkey, path, detail)
    if r.returncode == 3:
        return ("no-repro", key, None, txt[-300:])
    if r.returncode not in (0, 2, 3) and ("ERROR: AddressSanitizer" in txt or "CRASH sig=" in txt or "ThreadSanitizer" in txt or r.returncode < 0):
        # the gate process itself died: the crash happens while the case is being GENERATED (building / loading the base
        # object of the case), before any fault or damage is applied. Replay = generating that case again.
        m = re.search(r"ERROR: AddressSanitizer: ([\w-]+)", txt)
        m2 = re.search(r" in (ezc3d::[\w:~]+)", txt[m.start():]) if m else None
        m3 = re.search(r"CRASH sig=(\d+) fn=(\S+)", txt)
        if m:
            gkey = f"{prop}/crash-while-building-base/asan:{m.group(1)}/{m2.group(1) if m2 else '?'}"
        elif m3:
            gkey = f"{prop}/crash-while-building-base/sig{m3.group(1)}/{m3.group(2)}"
        else:
            gkey = f"{prop}/crash-while-building-base/exit{r.returncode}"
        with open(out, "w") as f:
            f.write(f"gencrash prop={prop} tier={tier} seed={seed} index={index} variant={variant}\n# {gkey}\n# generating this case (a valid history / a valid file being loaded) kills the process:\n# " + txt[-600:].replace("\n", "\n# ") + "\n")
        r2 = subprocess.run(launcher(variant) + [exe, "gen", "--prop", prop, "--tier", tier, "--seed", str(seed), "--index", str(index)], stdout=subprocess.DEVNULL, stderr=subprocess.DEVNULL, env=env)
        if r2.returncode == 0:
            return ("nondeterministic", gkey, None, "crash while generating the case did not reproduce")
        return ("ok", gkey, out, "process died while building the base object of the case: " + txt[-200:].replace("\n", " "))
    return ("nondeterministic", key, None, txt[-500:])


def check(prop, tier):
    seed = int(os.environ.get("VERIF_SEED", "1"))
    t0 = time.time()
    plan = tier_plan(prop, tier)
    budget = BUDGET_S[tier] / len(plan)
    res_lines = []
    viols = []      # dicts
    notes = []
    states, bigrams, probes, disk, samples = set(), {}, {}, {}, []
    extra = {}
    ratios = {"worst_read_ratio": 0.0, "worst_heap_ratio": 0.0}
    per_variant = {}
    all_crashes = []
    harness_problem = []
    slow_cases = []

    def collect(s, variant):
        if s.startswith("RES "):
            d = dict(kv.split("=", 1) for kv in s[4:].split() if "=" in kv)
            d["variant"] = variant
            res_lines.append(d)
            for k, v in d.items():
                if k.startswith("x."):
                    if k == "x.residue":
                        extra.setdefault("residues", set()).add(int(v) - 1000)
                    elif k == "x.sched.hash":
                        extra.setdefault("schedules", set()).add(v)
                    else:
                        extra[k[2:]] = extra.get(k[2:], 0) + int(v)
        elif s.startswith("VIOL "):
            m = re.match(r"VIOL i=(\d+) alt=(-?\d+) prop=(\S+) key=(\S+) step=(-?\d+) detail=(.*)", s)
            if m:
                viols.append(dict(index=int(m.group(1)), alt=int(m.group(2)), prop=m.group(3), key=m.group(4), step=int(m.group(5)), detail=m.group(6), variant=variant))
        elif s.startswith("NOTE "):
            if len(notes) < 50:
                notes.append(s)
        elif s.startswith("STATES"):
            states.update(s.split()[1:])
        elif s.startswith("BIGRAMS"):
            for t in s.split()[1:]:
                k, v = t.rsplit(":", 1)
                bigrams[k] = bigrams.get(k, 0) + int(v)
        elif s.startswith("PROBES"):
            for t in s.split()[1:]:
                k, v = t.rsplit("=", 1)
                probes[k] = probes.get(k, 0) + int(v)
        elif s.startswith("DISK"):
            for t in s.split()[1:]:
                k, v = t.split("=")
                disk[k] = disk.get(k, 0) + int(v)
        elif s.startswith("RATIOS"):
            for t in s.split()[1:]:
                k, v = t.split("=")
                ratios[k] = max(ratios[k], float(v))
        elif s.startswith("SAMPLE "):
            if len(samples) < 6:
                samples.append(s[7:])

    exes = {}
    for variant, ncases in plan:
        exe = build(variant)
        exes[variant] = exe
        tv = time.time()
        before = len(res_lines)
        crashes, timed_out, nworkers = run_workers(exe, variant, prop, tier, seed, ncases, budget, collect)
        per_variant[variant] = dict(cases_planned=ncases, cases_run=len(res_lines) - before, wall_s=round(time.time() - tv, 1), workers=nworkers,
                                    stopped_by_budget=timed_out, worker_deaths=len(crashes))
        for c in crashes:
            all_crashes.append((variant,) + c)

    # ---- violations: gate, classify against known findings --------------------------------
    known, fixed = load_known()
    by_key = {}
    for v in viols:
        if v["prop"] != prop and not (prop == "C13"):
            continue
        by_key.setdefault((v["key"], v["variant"]), []).append(v)
    if prop == "C13":
        by_key = {}  # oracle violations of other properties are not C13's business; only crashes are
    reported = []      # (status, key, path, detail)
    known_hit = {}
    new_violation = False
    for (key, variant), lst in sorted(by_key.items()):
        v = min(lst, key=lambda x: x["index"])
        kk = key_matches(key, known)
        n_shrunk = sum(1 for r in reported)  # minimise the first few new keys only: each minimisation may take up to 90 s
        st, gkey, path, detail = gate(exes[variant], prop, tier, seed, v["index"], v["alt"], key, shrink=(kk is None and n_shrunk < 3 and variant != "vg"), variant=variant)
        if st != "ok":
            harness_problem.append(f"gate {st} for key {key} (case {v['index']}): {detail}")
            continue
        kk = key_matches(gkey, known)
        if kk:
            known_hit[kk] = known_hit.get(kk, 0) + len(lst)
            if path and os.path.exists(path):
                os.unlink(path)
        else:
            reported.append((gkey, path, detail, len(lst)))
            new_violation = True
    # crashes / watchdog hits
    seen_crash_keys = set()
    watchdog_repeats = 0
    gates_done = 0
    ungated = 0
    for (variant, idx, alt, rc, tail) in all_crashes:
        if idx is None:
            harness_problem.append(f"worker died outside a case (rc={rc}): {tail[-300:]}")
            continue
        if rc == "watchdog" and prop != "C16":
            # no property except C16 speaks about time: a slow case is skipped and counted, never a violation
            slow_cases.append(idx)
            continue
        # cheap pre-classification to avoid gating the same crash site many times
        pre = None
        if os.environ.get("VERIF_TIMING"):
            sys.stderr.write(f"[timing] death {variant} case {idx} alt {alt} rc={rc} tail={tail[-160:]!r}\n")
        m = re.search(r"CRASH sig=(\d+) fn=(\S+)", tail)
        if m:
            fn = m.group(2)
            if fn.startswith("_Z"):   # the crash handler prints the mangled name (it must not allocate)
                try:
                    fn = subprocess.run(["c++filt", fn], stdout=subprocess.PIPE, timeout=10).stdout.decode().strip() or fn
                except Exception:
                    pass
                fn = fn.split("(")[0].split("[")[0]
            pre = f"{prop}/crash/sig{m.group(1)}/{fn}"
        m = re.search(r"ERROR: AddressSanitizer: ([\w-]+)", tail)
        if m and m.group(1) in ("requested", "allocation-size-too-big", "out-of-memory", "calloc-overflow"):
            pre = None  # classified by the gate as a heap-budget violation
        elif m:
            m2 = re.search(r" in (ezc3d::[\w:~]+)", tail[m.start():])
            pre = f"{prop}/crash/asan:{m.group(1)}/{m2.group(1) if m2 else '?'}"
        if pre and pre in seen_crash_keys:
            kk = key_matches(pre, known)
            if kk:
                known_hit[kk] = known_hit.get(kk, 0) + 1
            continue
        if rc == "watchdog" and any(k.startswith(f"{prop}/budget/watchdog") for k in list(seen_crash_keys) + [r[0] for r in reported]):
            watchdog_repeats += 1   # one gated hang is enough; the others are counted
            continue
        if gates_done >= 8:
            ungated += 1
            continue
        gates_done += 1
        kk0 = key_matches(pre, known) if pre else None
        st, gkey, path, detail = gate(exes[variant], prop, tier, seed, idx, alt, pre, shrink=(kk0 is None and len(reported) < 3), variant=variant)
        if rc == "watchdog" and (st == "no-repro" or (st == "nondeterministic" and "timeout" in str(detail))):
            notes.append(f"NOTE watchdog hit on case {idx} did not reproduce on replay (slow under load, not a violation)")
            continue
        if st != "ok":
            harness_problem.append(f"gate {st} for crash in case {idx} alt {alt} (rc={rc}): {detail}")
            continue
        seen_crash_keys.add(gkey)
        if pre:
            seen_crash_keys.add(pre)
        kk = key_matches(gkey, known)
        if kk:
            known_hit[kk] = known_hit.get(kk, 0) + 1
            if path and os.path.exists(path):
                os.unlink(path)
        else:
            if not any(r[0] == gkey for r in reported):
                reported.append((gkey, path, detail, 1))
            new_violation = True

    # ---- evidence ---------------------------------------------------------------------------
    wall = time.time() - t0
    evals = sum(int(d.get("ev", 1)) for d in res_lines)
    nontrivial = set(d["th"] for d in res_lines if d.get("nt") == "1")
    steps = sum(int(d.get("steps", 0)) for d in res_lines)
    io = sum(int(d.get("io", 0)) for d in res_lines)
    level = "fault_enumeration" if prop in ("C15", "C16") else "exploration"
    cov = {
        "evaluations": evals,
        "distinct_nontrivial": len(nontrivial),
        "rule": RULES.get(prop, RULES["default"]),
        "samples": samples or ["(no sample)"],
        "cases_run": len(res_lines),
        "runs_per_hour": int(len(res_lines) / wall * 3600) if wall > 0 else 0,
        "seeds": {"VERIF_SEED": seed, "run_seed": "mix(mix(VERIF_SEED, hash(property)), index)", "indices": f"0..{max([int(d['i']) for d in res_lines] + [0])}"},
        "simulated_time": {"unit": "logical steps (plan steps + intercepted I/O and read-seam calls); ezc3d has no clock", "plan_steps": steps, "io_and_read_seam_calls": io},
        "fault_kinds_fired": {k: v for k, v in disk.items() if k in ("open_fail", "budget", "eio", "short_write", "eintr_w", "eintr_r", "short_read", "seek_fail")},
        "io_totals": {k: v for k, v in disk.items() if k not in ("open_fail", "budget", "eio", "short_write", "eintr_w", "eintr_r", "short_read", "seek_fail")},
        "distinct_abstract_states": len(states),
        "distinct_op_bigrams": len(bigrams),
        "probes": probes,
        "premise_broken_runs": sum(1 for d in res_lines if int(d.get("pb", 0)) > 0),
        "variants": per_variant,
        "real_vs_stub": REAL_STUB,
        "known_findings_hit": known_hit,
        "notes": notes[:20],
        "harness_problems": harness_problem,
        "slow_cases_skipped": slow_cases,
        "watchdog_hits_after_the_first": watchdog_repeats,
        "worker_deaths_not_gated": ungated,
        "budget_ratios_on_valid_loads": ratios,
    }
    for k, v in extra.items():
        if isinstance(v, set):
            cov["distinct_" + k] = len(v)
            if k == "residues":
                cov["residues_missing"] = sorted(set(range(512)) - v)[:40]
        else:
            cov.setdefault("mode_counters", {})[k] = v
    if prop == "C16":
        mc = cov.get("mode_counters", {})
        cov["fault_kinds_fired"] = {
            "truncate": mc.get("alt.trunc", 0), "crash_image_at_write_boundary": mc.get("alt.crash", 0), "torn_write": mc.get("alt.torn", 0),
            "lost_512_byte_blocks": mc.get("alt.lostblk", 0), "byte_rot_structure_aware": sum(v for k, v in mc.items() if k.startswith("alt.rot.") and k != "alt.rot.random"),
            "byte_rot_random": mc.get("alt.rot.random", 0), "undamaged_control": mc.get("alt.none", 0)}
        cov["outcomes_of_damaged_loads"] = {k: v for k, v in mc.items() if k == "loaded" or k.startswith("refused.")}
    ev = {
        "property_id": prop, "tier": tier, "seed": seed, "level": level, "coverage": cov,
        "assumptions": ASSUME.get(prop, []) + ["the reference oracles in /verif/sim (snapshot comparison, independent C3D codec, documented-precondition model) are correct",
                                               "clean batches are evidence over the sampled seeds, not proof"],
        "wall_s": round(wall, 1), "violations": len(reported),
    }
    os.makedirs(EVID, exist_ok=True)
    with open(os.path.join(EVID, prop + ".json"), "w") as f:
        json.dump(ev, f, indent=1, sort_keys=True, default=lambda o: sorted(o) if isinstance(o, set) else str(o))

    for kk, n in sorted(known_hit.items()):
        log(f"KNOWN-FINDING: property={known[kk][0]} key={kk} hits={n} {known[kk][1]}")
    for (gkey, path, detail, n) in reported:
        log(f"VIOLATION property={prop} replay={path} key={gkey} occurrences={n} detail={detail}")
    log(f"[{prop} {tier}] cases={len(res_lines)} evaluations={evals} distinct_nontrivial={len(nontrivial)} states={len(states)} wall={wall:.1f}s violations={len(reported)} known={len(known_hit)}")
    if harness_problem:
        for h in harness_problem:
            log("HARNESS-PROBLEM: " + h)
        if not new_violation:
            return 2
    if len(res_lines) == 0:
        log("HARNESS-PROBLEM: no case was executed")
        return 2
    planned = sum(n for _, n in plan)
    if not new_violation and tier == "quick" and len(res_lines) < planned / 10:
        log(f"HARNESS-PROBLEM: only {len(res_lines)} of {planned} planned cases were executed within the time budget ({len(slow_cases)} slow cases skipped): the check explored too little to say 'held'")
        return 2
    return 1 if new_violation else 0


RULES = {
    "default": "cases are seeded API histories (plans) executed against the real library on the simulated file layer; a case is non-trivial if at least one mutating call succeeded; distinct = distinct trace hash (per-step snapshot hashes, exception classes, saved-image hashes)",
    "C01": "seeded construction histories ending in save -> destroy -> restart-load on SimDisk, alternating fault-free and benign-fault (short write/read, EINTR) configurations; non-trivial = at least one mutating call succeeded and at least one restart-load happened; distinct = distinct trace hash",
    "C04": "load (vendor file / independent-encoder layout variant / API-built) then 2-4 generations of save -> restart-load; non-trivial = at least one restart-load of a library-written file; distinct = distinct trace hash",
    "C15": "per case: one object x many saves, each under one injected hard fault (open errno; ENOSPC/EFBIG/EDQUOT after k accepted bytes; EIO at the n-th write call) plus never-firing and benign controls; evaluations = faulted saves; non-trivial = at least one hard fault actually fired; distinct = distinct trace hash",
    "C16": "per case: one base file x many damage alternatives (truncation, crash image at a write boundary, torn write, lost 512-byte blocks, structure-aware and random byte rot), each restart-loaded under read/heap budgets; evaluations = damaged loads; non-trivial = more than one alternative; distinct = distinct trace hash over all outcomes",
    "C18": "2-4 real threads each running its own plan on its own objects, exactly one runnable at a time, next thread chosen by a seeded scheduler at every step boundary, simulated system call and istream::read issued by ezc3d; non-trivial = at least two context switches; distinct = distinct (schedule, per-thread trace) hash",
}
ASSUME = {
    "C13": ["AddressSanitizer + _GLIBCXX_ASSERTIONS report every out-of-bounds access, use-after-free, wrong deallocator and out-of-range container index that is executed"],
    "C16": ["budgets: reads <= 2S+1024, bytes <= 4S+65536, peak heap <= 512S+1MiB for a file of S bytes"],
    "C18": ["thread switches happen only at yield points (step boundaries, simulated system calls, before/after every istream::read issued by ezc3d)",
            "ThreadSanitizer does not see inside uninstrumented libstdc++"],
}


C19_CONFIGS = [("Debug", "TRUE"), ("Debug", "FALSE"), ("RelWithDebInfo", "TRUE"), ("RelWithDebInfo", "FALSE"), ("Release", "TRUE"), ("Release", "FALSE")]


def check_c19(tier, only=None):
    """Six cmake builds of the library ({Debug,-O0; RelWithDebInfo,-O2; Release,-O3} x {shared, static}) in a scratch
    directory that is removed afterwards; the same seeds are executed by six drivers and the traces are diffed."""
    seed = int(os.environ.get("VERIF_SEED", "1"))
    t0 = time.time()
    n = 500 if tier == "quick" else 20000
    scratch = tempfile.mkdtemp(prefix="verif-c19-")
    problems, reported, notes = [], [], []
    res = {}
    samples = []
    try:
        # sim objects once, without the link-time wraps (shared libraries cannot be wrapped): real directory as file layer
        objs = []
        procs = []
        for f in sorted(glob.glob(os.path.join(SIM, "*.cpp"))):
            o = os.path.join(scratch, "sim_" + os.path.basename(f)[:-4] + ".o")
            objs.append(o)
            procs.append(subprocess.Popen(f"g++ -std=c++17 -O1 -g -DSIM_NO_WRAP -I{REPO}/include -I{SIM} -pthread -w -c {f} -o {o}", shell=True, stderr=subprocess.PIPE))
        builds = []
        for i, (bt, shared) in enumerate(C19_CONFIGS):
            b = os.path.join(scratch, f"b{i}")
            cmd = (f"cmake -G Ninja -S {REPO} -B {b} -DCMAKE_BUILD_TYPE={bt} -DBUILD_SHARED_LIBS={shared} -DBUILD_EXAMPLE=FALSE -DBUILD_TESTS=OFF "
                   f"> {b}.log 2>&1 && cmake --build {b} -j 3 >> {b}.log 2>&1")
            builds.append((i, bt, shared, b, subprocess.Popen(cmd, shell=True)))
        for p in procs:
            _, err = p.communicate()
            if p.returncode != 0:
                problems.append("driver compile failed: " + err.decode(errors="replace")[-400:])
        drivers = []
        for i, bt, shared, b, p in builds:
            p.wait()
            libs = glob.glob(os.path.join(b, "libezc3d*.so")) + glob.glob(os.path.join(b, "libezc3d*.a"))
            if p.returncode != 0 or not libs:
                problems.append(f"cmake build {bt}/shared={shared} failed: " + open(b + ".log").read()[-400:])
                continue
            lib = libs[0]
            drv = os.path.join(scratch, f"drv{i}")
            link = f"g++ -O1 -g -pthread -rdynamic {' '.join(objs)} {lib} -Wl,-rpath,{b} -ldl -o {drv}"
            r = subprocess.run(link, shell=True, stderr=subprocess.PIPE)
            if r.returncode != 0:
                problems.append("driver link failed: " + r.stderr.decode(errors="replace")[-400:])
                continue
            drivers.append((i, f"{bt}/{'shared' if shared == 'TRUE' else 'static'}", drv))
        t_built = time.time()
        if len(drivers) == 6 and not problems:
            per = max(1, NCPU // 6)
            # one thread per (build, slice); a driver that dies in a case is restarted behind it, and the death is that
            # build's result for the case (a crash in some builds only is a divergence; in all six it is C13's business)
            import concurrent.futures

            def run_slice(i, name, drv, idx, root):
                lines, pending, local_problems = [], list(idx), []
                while pending:
                    pr = subprocess.run([drv, "worker", "--prop", "C19", "--tier", tier, "--seed", str(seed), "--only", ",".join(map(str, pending)),
                                         "--root", root, "--steps"], stdout=subprocess.PIPE, stderr=subprocess.STDOUT)
                    out = pr.stdout.decode(errors="replace").splitlines()
                    lines += out
                    if pr.returncode == 0:
                        break
                    cur = None
                    for l in out:
                        if l.startswith("BEGIN "):
                            cur = int(l[6:])
                        elif l.startswith("RES "):
                            cur = None
                    if cur is None or cur not in pending:
                        local_problems.append(f"driver {name} exited {pr.returncode} outside a case: {' '.join(out[-3:])[-300:]}")
                        break
                    m = re.search(r"CRASH sig=(\d+)", "\n".join(out[-40:]))
                    lines.append(f"RES i={cur} th=crash:{'sig' + m.group(1) if m else 'exit' + str(pr.returncode)} img=0 nt=1")
                    pending = pending[pending.index(cur) + 1:]
                return i, name, lines, local_problems

            jobs = []
            with concurrent.futures.ThreadPoolExecutor(max_workers=6 * per) as ex:
                for i, name, drv in drivers:
                    for w in range(per):
                        idx = [only] if only is not None else list(range(w, n, per))
                        if only is not None and w > 0:
                            continue
                        root = os.path.join(scratch, f"run{i}_{w}")
                        os.makedirs(root)
                        jobs.append(ex.submit(run_slice, i, name, drv, idx, root))
            for j in jobs:
                i, name, lines, lp = j.result()
                problems += lp
                for line in lines:
                    if line.startswith("RES "):
                        d = dict(kv.split("=", 1) for kv in line[4:].split() if "=" in kv)
                        res.setdefault(int(d["i"]), {})[name] = [d["th"], d["img"], d.get("nt", "0"), None]
                    elif line.startswith("STEPS "):
                        parts = line.split()
                        idx = int(parts[1][2:])
                        if idx in res and name in res[idx]:
                            res[idx][name][3] = parts[2:]
                    elif line.startswith("SAMPLE ") and len(samples) < 4 and i == 0:
                        samples.append(line[7:])
            known, _ = load_known()
            known_hit = {}
            os.makedirs(REPLAYS, exist_ok=True)
            for idx in sorted(res):
                per_build = res[idx]
                if len(per_build) != 6:
                    problems.append(f"case {idx} was not executed by all six builds: {sorted(per_build)}")
                    continue
                sigs = {name: (v[0], v[1]) for name, v in per_build.items()}
                if len(set(sigs.values())) == 1 and str(next(iter(sigs.values()))[0]).startswith("crash:"):
                    notes.append(f"NOTE case {idx} ends the process in all six builds alike ({next(iter(sigs.values()))[0]}): no divergence (C13's business)")
                if len(set(sigs.values())) > 1:
                    names = sorted(per_build)
                    ref = per_build[names[0]][3] or []
                    first = None
                    for nm in names[1:]:
                        st = per_build[nm][3] or []
                        for k in range(max(len(ref), len(st))):
                            if k >= len(ref) or k >= len(st) or ref[k] != st[k]:
                                first = k if first is None else min(first, k)
                                break
                    key = f"C19/divergence/step{first}"
                    crashed = [nm for nm, sg in sigs.items() if str(sg[0]).startswith("crash:")]
                    groups = {}
                    for nm, sg in sigs.items():
                        groups.setdefault(sg, []).append(nm)
                    detail = "builds disagree: " + " vs ".join("{" + ",".join(v) + "}" for v in groups.values())
                    # which operation is it? ask a driver for the case text
                    txt = subprocess.run([drivers[0][2], "gen", "--prop", "C19", "--tier", tier, "--seed", str(seed), "--index", str(idx)], stdout=subprocess.PIPE).stdout.decode(errors="replace")
                    steps = [l for l in txt.splitlines() if l.startswith("step ")]
                    if first is not None and first < len(steps):
                        key = "C19/divergence/" + steps[first].split()[1]
                        detail += "; first diverging step " + str(first) + ": " + steps[first][:160]
                    if crashed:
                        key = "C19/divergence/process-ends-in-some-builds"
                        detail += "; the process ends abnormally in " + ",".join(sorted(crashed)) + " (" + sigs[crashed[0]][0] + ")"
                    kk = key_matches(key, known)
                    if kk:
                        known_hit[kk] = known_hit.get(kk, 0) + 1
                    elif not any(r[0] == key for r in reported):
                        path = os.path.join(REPLAYS, f"C19-{seed}-{idx}.replay")
                        with open(path, "w") as f:
                            f.write(f"# C19 replay: ./check replay re-runs this index on six fresh builds\nc19 seed={seed} tier={tier} index={idx}\n# {detail}\n" + txt)
                        reported.append((key, path, detail, 1))
        elif not problems:
            problems.append("fewer than six drivers")
    finally:
        shutil.rmtree(scratch, ignore_errors=True)
    wall = time.time() - t0
    known_hit = locals().get("known_hit", {})
    nontrivial = set(v[sorted(v)[0]][0] for v in res.values() if len(v) == 6 and v[sorted(v)[0]][2] == "1")
    ev = {
        "property_id": "C19", "tier": tier, "seed": seed, "level": "exploration",
        "coverage": {
            "evaluations": len(res) * 6, "distinct_nontrivial": len(nontrivial),
            "rule": "each seed is one history of the C01/C03/C04/C14 generators (fault-free, incl. print() and rates at the float->int conversion edges) executed by six drivers, one per cmake build {Debug -O0, RelWithDebInfo -O2, Release -O3} x {shared, static}; evaluations = executions; non-trivial = at least one mutating call succeeded; distinct = distinct trace hash; the oracle is equality of trace and saved-image hashes across the six",
            "samples": samples or ["(no sample)"], "cases_run": len(res), "builds": [f"{bt}/{'shared' if sh == 'TRUE' else 'static'}" for bt, sh in C19_CONFIGS],
            "runs_per_hour": int(len(res) * 6 / wall * 3600) if wall > 0 else 0,
            "build_wall_s": round(locals().get("t_built", t0) - t0, 1),
            "real_vs_stub": {"ezc3d": "real, six cmake builds of the current working tree", "file layer": "REAL per-run temporary directory (shared libraries cannot be link-wrapped); no faults, the property has none",
                             "std::fstream": "real (dynamic libstdc++)", "scheduler / allocator seams": "not used"},
            "fault_kinds_fired": {}, "known_findings_hit": known_hit, "harness_problems": problems, "notes": notes[:20],
            "seeds": {"VERIF_SEED": seed, "indices": f"0..{max(list(res) + [0])}"},
        },
        "assumptions": ["trace digests (per-step snapshot hashes with floats as bit patterns, exception class names, print() text, saved file images) capture every value the API returns",
                        "the drivers' own code is compiled identically for all six; only the library differs"],
        "wall_s": round(wall, 1), "violations": len(reported),
    }
    os.makedirs(EVID, exist_ok=True)
    with open(os.path.join(EVID, "C19.json"), "w") as f:
        json.dump(ev, f, indent=1, sort_keys=True)
    for kk, nhit in sorted(known_hit.items()):
        log(f"KNOWN-FINDING: property=C19 key={kk} hits={nhit}")
    for (key, path, detail, nocc) in reported:
        log(f"VIOLATION property=C19 replay={path} key={key} detail={detail}")
    log(f"[C19 {tier}] cases={len(res)} x 6 builds distinct_nontrivial={len(nontrivial)} wall={wall:.1f}s violations={len(reported)}")
    if problems:
        for h in problems[:10]:
            log("HARNESS-PROBLEM: " + h)
        if not reported:
            return 2
    return 1 if reported else 0


def selftest(props, n):
    """Determinism: every run seed executed in different processes, at different worker counts and by differently
    compiled simulators must produce the same trace hash."""
    seed = int(os.environ.get("VERIF_SEED", "1"))
    bad = 0
    total = 0

    def run(exe, prop, nworkers):
        out = {}
        procs = []
        for w in range(nworkers):
            idx = ",".join(str(i) for i in range(w, n, nworkers))
            if not idx:
                continue
            procs.append(subprocess.Popen([exe, "worker", "--prop", prop, "--tier", "quick", "--seed", str(seed), "--only", idx],
                                          stdout=subprocess.PIPE, stderr=subprocess.DEVNULL))
        for p in procs:
            o, _ = p.communicate()
            for line in o.decode(errors="replace").splitlines():
                if line.startswith("RES "):
                    d = dict(kv.split("=", 1) for kv in line[4:].split() if "=" in kv)
                    out[int(d["i"])] = (d["th"], d.get("viol"))
        return out

    plain, asan = build("plain"), build("asan")
    for prop in props:
        a = run(plain, prop, 1 if n <= 400 else 4)
        b = run(plain, prop, 16)
        c = run(plain, prop, 5)
        d = run(asan, prop, 8) if prop not in ("C14",) else {}
        for i in sorted(a):
            total += 1
            vals = {a.get(i), b.get(i), c.get(i)}
            if d and i in d and prop not in ("C16", "C18"):
                vals.add(d.get(i))   # C16 heap budgets and C18 allocation yield points exist only in the plain variant
            if len(vals) != 1:
                bad += 1
                if bad <= 10:
                    log(f"SELFTEST mismatch prop={prop} index={i}: {vals}")
        log(f"[selftest] {prop}: {len(a)} seeds x (1|4, 16, 5 workers plain" + (", 8 workers asan)" if d else ")") + f" compared")
    log(f"[selftest] total={total} mismatches={bad}")
    return 0 if bad == 0 else 2


def main():
    if len(sys.argv) < 2:
        print(__doc__)
        return 2
    cmd = sys.argv[1]
    os.makedirs(BUILD, exist_ok=True)
    if cmd == "build":
        for v in sys.argv[2:] or ["plain"]:
            build(v)
        return 0
    if cmd == "selftest":
        props = sys.argv[2].split(",") if len(sys.argv) > 2 else ["C01", "C03", "C04", "C05", "C06", "C07", "C08", "C09", "C10", "C14", "C15", "C17", "C18"]
        return selftest(props, int(sys.argv[3]) if len(sys.argv) > 3 else 300)
    if cmd == "check" and sys.argv[2] == "C19":
        return check_c19(sys.argv[3] if len(sys.argv) > 3 else os.environ.get("VERIF_TIER", "quick"))
    if cmd == "check":
        return check(sys.argv[2], sys.argv[3] if len(sys.argv) > 3 else os.environ.get("VERIF_TIER", "quick"))
    if cmd == "replay":
        path = sys.argv[2]
        txt = open(path).read()
        m19 = re.search(r"^c19 seed=(\d+) tier=(\S+) index=(\d+)", txt, re.M)
        if m19:
            os.environ["VERIF_SEED"] = m19.group(1)
            return check_c19(m19.group(2), only=int(m19.group(3)))
        mg = re.search(r"^gencrash prop=(\S+) tier=(\S+) seed=(\d+) index=(\d+) variant=(\S+)", txt, re.M)
        if mg:
            exe = build(mg.group(5))
            env = dict(os.environ)
            env["ASAN_SYMBOLIZER_PATH"] = "/usr/bin/llvm-symbolizer-14"
            r = subprocess.run(launcher(mg.group(5)) + [exe, "gen", "--prop", mg.group(1), "--tier", mg.group(2), "--seed", mg.group(3), "--index", mg.group(4)], stdout=subprocess.DEVNULL, env=env)
            print("REPLAY result=" + ("violation (process died while generating the case)" if r.returncode != 0 else "ok"))
            return 1 if r.returncode != 0 else 0
        m = re.search(r"case prop=(\S+)", txt)
        prop = m.group(1) if m else "C01"
        variant = "plain"
        if "/crash/asan" in txt or prop == "C13":
            variant = "asan"
        if "/crash/tsan" in txt:
            variant = "tsan"
        exe = build(variant)
        env = dict(os.environ)
        env["ASAN_SYMBOLIZER_PATH"] = "/usr/bin/llvm-symbolizer-14"
        r = subprocess.run([exe, "replay", path, "--verbose"], env=env)
        return r.returncode
    print(__doc__)
    return 2


if __name__ == "__main__":
    sys.exit(main())
