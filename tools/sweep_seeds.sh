#!/bin/bash
# sweep_seeds.sh <tier> <seed>... : every check at other VERIF_SEEDs, evidence/replays redirected; prints only problems and summaries
TIER=$1; shift
export VERIF_EVID=/tmp/sweep-evid-$$ VERIF_REPLAYS=$PWD/sweep-replays
mkdir -p $VERIF_EVID $VERIF_REPLAYS
for s in "$@"; do
  for p in C01 C03 C04 C05 C06 C07 C08 C09 C10 C13 C14 C15 C16 C17 C18 C19; do
    VERIF_SEED=$s ./check $p $TIER 2>&1 | grep -E "^\[C|VIOLATION|HARNESS" | sed "s/^/seed=$s /" | cut -c1-400
  done
done
