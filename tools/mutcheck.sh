#!/bin/bash
# mutcheck.sh <repo-copy> <PROP>... : run quick checks against a scratch copy of the repo without touching /verif/evidence or /verif/replays
R=$1; shift
export VERIF_REPO=$R VERIF_EVID=/tmp/mutcheck-evid VERIF_REPLAYS=/tmp/mutcheck-replays VERIF_BUILD=/tmp/mutcheck-build
mkdir -p $VERIF_EVID $VERIF_REPLAYS
for p in "$@"; do
  /verif/check $p quick 2>&1 | grep -E "^\[C|VIOLATION|HARNESS" | cut -c1-330
done
