#!/bin/bash
# survey.sh <PROP> <count> [variant]: distinct violation keys with counts and first index (no gating) - triage aid
PROP=$1; N=${2:-2000}; V=${3:-plain}
EXE=$(ls -td /verif/build/$V-*/simc3d | head -1)
T=$(mktemp -d)
for j in $(seq 0 15); do
  ( timeout ${SURVEY_TIMEOUT:-600} $EXE worker --prop $PROP --tier ${TIER:-quick} --seed ${VERIF_SEED:-1} --from 0 --count $N --offset $j --stride 16 > $T/out.$j 2>&1 ) &
done
wait
cat $T/out.* | grep -c '^RES' | sed 's/^/cases: /'
cat $T/out.* | grep '^VIOL' | sed -E 's/VIOL i=([0-9]+) alt=(-?[0-9]+) prop=\S+ key=(\S+) step=\S+ detail=(.*)/\3\t\1\t\4/' | sort -t$'\t' -k1,1 -k2,2n | awk -F'\t' '{c[$1]++; if(!($1 in f)){f[$1]=$2; d[$1]=$3}} END{for(k in c) printf "%6d  %s  first=%s  %s\n", c[k], k, f[k], substr(d[k],1,160)}' | sort -k2
grep -h -B1 "CRASH" $T/out.* | grep -E "CRASH|BEGIN" | paste - - | awk '{print $NF, $0}' | cut -c1-200 | sort | uniq -c | sort -rn | head -20
for j in $(seq 0 15); do tail -1 $T/out.$j | grep -q DONE || { echo "worker $j did not finish:"; tail -3 $T/out.$j | cut -c1-300; }; done
rm -rf $T
