#!/bin/bash
# regress_seeded.sh [ids...]: re-run every seeded change (seeded/M*/patch.diff) against the check that is recorded as
# catching it, on the CURRENT machinery and the current /repo HEAD. One line per change: caught / MISSED / patch-does-not-apply.
# Scratch worktrees and the simulator builds made for them (under /tmp/reg-build) are removed after each change.
cd /verif
OUT=${REGRESS_OUT:-/tmp/regress_seeded.log}
: > $OUT
for d in seeded/M*/; do
  id=$(basename $d)
  if [ $# -gt 0 ]; then case " $* " in *" ${id%%-*} "*) ;; *) continue;; esac; fi
  props=$(python3 -c "
import json,re,sys
m=json.load(open('$d/meta.json')); c=m.get('checks_run',{}).get('caught_by','')
ids=re.findall(r'C\d\d', c) or re.findall(r'C\d\d', m.get('breaks_property',''))
print(ids[0] if ids else '')")
  [ -z "$props" ] && { echo "$id no-property" | tee -a $OUT; continue; }
  W=/tmp/reg_${id%%-*}
  git -C /repo worktree remove --force $W >/dev/null 2>&1; rm -rf $W
  git -C /repo worktree add --detach $W HEAD >/dev/null 2>&1 || { echo "$id worktree-failed" | tee -a $OUT; continue; }
  if ! git -C $W apply $PWD/$d/patch.diff 2>/dev/null && ! git -C $W apply --3way $PWD/$d/patch.diff >/dev/null 2>&1; then
    echo "$id $props patch-does-not-apply (the code it changes was changed by a later fix)" | tee -a $OUT
    git -C /repo worktree remove --force $W >/dev/null 2>&1; rm -rf $W; continue
  fi
  res=$(VERIF_REPO=$W VERIF_EVID=/tmp/reg-evid VERIF_REPLAYS=/tmp/reg-replays VERIF_BUILD=/tmp/reg-build ./check $props quick 2>&1)
  rc=$?
  key=$(echo "$res" | grep -m1 "^VIOLATION" | sed 's/.*key=\([^ ]*\).*/\1/')
  if [ $rc -eq 1 ] && [ -n "$key" ]; then echo "$id $props caught $key" | tee -a $OUT
  elif [ $rc -eq 2 ]; then echo "$id $props exit2 $(echo "$res" | grep -m1 HARNESS | cut -c1-160)" | tee -a $OUT
  else echo "$id $props MISSED rc=$rc" | tee -a $OUT; fi
  git -C /repo worktree remove --force $W >/dev/null 2>&1; rm -rf $W /tmp/reg-evid /tmp/reg-replays /tmp/reg-build
done
git -C /repo worktree prune
echo "done: $(grep -c ' caught ' $OUT) caught, $(grep -c MISSED $OUT) missed, $(grep -c 'does-not-apply' $OUT) not applicable, $(grep -c exit2 $OUT) exit 2" | tee -a $OUT
