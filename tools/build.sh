#!/bin/bash
# usage: build.sh <variant> <outdir>   (variant: plain | asan | tsan | vg)
set -e
VARIANT=$1; OUT=$2
REPO=${REPO:-/repo}
SIM=/verif/sim
mkdir -p "$OUT"
WRAP="-Wl,--wrap=fopen64,--wrap=fclose,--wrap=read,--wrap=write,--wrap=writev,--wrap=lseek64,--wrap=ioctl,--wrap=rename,--wrap=remove,--wrap=_ZNSi4readEPcl,--wrap=_ZNSi8readsomeEPcl"
case $VARIANT in
  plain) CXX=g++; FLAGS="-O1 -g -DSIM_ALLOC_SEAM";;
  vg)    CXX=g++; FLAGS="-O1 -g -DSIM_VALGRIND";;
  asan)  CXX=clang++; FLAGS="-O1 -g -fsanitize=address -fno-omit-frame-pointer -D_GLIBCXX_ASSERTIONS -DSIM_ASAN";;
  tsan)  CXX=clang++; FLAGS="-O1 -g -fsanitize=thread -fno-omit-frame-pointer -DSIM_TSAN";;
  *) echo "unknown variant"; exit 2;;
esac
COMMON="-std=c++17 -I$REPO/include -I$SIM -pthread $FLAGS"
pids=()
for f in $REPO/src/*.cpp; do
  o="$OUT/ez_$(basename ${f%.cpp}).o"
  $CXX $COMMON -w -c "$f" -o "$o" & pids+=($!)
done
for f in $SIM/*.cpp; do
  o="$OUT/sim_$(basename ${f%.cpp}).o"
  $CXX $COMMON -Wall -Wextra -c "$f" -o "$o" & pids+=($!)
done
fail=0
for p in "${pids[@]}"; do wait $p || fail=1; done
[ $fail = 0 ] || { echo "compile failed"; exit 1; }
$CXX $FLAGS -pthread -rdynamic -static-libstdc++ $WRAP "$OUT"/*.o -ldl -o "$OUT/simc3d"
echo "built $OUT/simc3d"
