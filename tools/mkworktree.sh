#!/bin/bash
# mkworktree.sh <dir>: scratch git worktree of /repo HEAD (outside /repo and /verif) that can build and run the test suite offline
set -e
D=$1
git -C /repo worktree add --detach "$D" HEAD >/dev/null 2>&1
rmdir "$D/external/gtest" 2>/dev/null || true
cp -r /repo/external/gtest "$D/external/gtest"
echo "worktree ready: $D"
