// Read seam (std::istream::read as called by ezc3d), allocator seam, budgets, crash reporting.
#pragma once
#include <cstdint>
#include <new>
#include <string>

namespace sim {

// thrown from the istream::read seam when a load exceeds its read budget; deliberately NOT a
// std::exception so that it cannot be mistaken for ezc3d refusing the file.
struct ReadBudgetExceeded {
    const char *what;
};
// thrown by the allocator seam when a load exceeds its heap budget (must derive from bad_alloc
// to be a legal operator new failure); the thread-local "tripped" flag is what decides.
struct HeapBudgetExceeded : std::bad_alloc {
    const char *what() const noexcept override { return "sim: heap budget exceeded"; }
};

struct ClaimedCounts { uint64_t values = 0, objects = 0, frames = 0, points = 0, subframes = 0, channels = 0; }; // 4-byte values / container elements (frames, points, sub-frames, channels) the loaded header says the data section holds

struct BudgetState {
    bool armed = false;
    uint64_t max_reads = 0, max_bytes = 0, max_heap = 0;
    uint64_t reads = 0, bytes = 0;
    uint64_t heap_base = 0, heap_peak = 0; // (heap_base unused) / peak of window_live while armed
    int64_t window_live = 0;               // bytes this thread allocated minus bytes it freed since the budget was armed: independent of what the
                                           // thread did before (a thread that frees other threads' blocks has a negative lifetime balance)
    bool tripped = false;
    const char *kind = "";       // "reads" | "bytes" | "heap"
    char site[256] = {0};        // innermost ezc3d function when tripped
    // --- trips in the data section are set against the counts the file itself claims (known defect: the data reader
    // trusts them). A first trip that those counts explain lets the load go on under the budget the claimed volume
    // would earn ("soft"); reading or allocating beyond even that is another defect and gets another key.
    uint64_t file_size = 0;
    bool in_data = false;        // the parameter section has been stored in the object: what follows is the data reader
    uint64_t reads_at_data = 0, bytes_at_data = 0;
    bool soft = false;           // first trip explained by the claimed counts, load continued
    const char *soft_kind = "";
    char soft_site[256] = {0};
    uint64_t claimed_values = 0, claimed_objects = 0;
    ClaimedCounts claimed;       // as the loaded header said when the budget tripped in the data section
    uint64_t samples = 0, samples_in_values = 0; // header/parameter phase, second half of the read budget: every 64th read is attributed by its call stack
};

// probes supplied by the executor for the object being loaded on this thread (nullptr: no explanation attempted)
void budget_set_probes(int (*phase_fn)(), ClaimedCounts (*claim_fn)());
void budget_arm(uint64_t file_size);
BudgetState budget_disarm();
BudgetState &budget_state();

uint64_t seam_read_calls();        // istream::read calls made through the seam (this thread)
uint64_t seam_read_bytes();
void seam_reset_counters();

// allocator seam (plain variant only; no-ops elsewhere)
bool alloc_seam_present();
void alloc_set_fill_seed(uint64_t seed);    // new epoch: contents of every fresh block
uint64_t alloc_live_bytes();
uint64_t alloc_count();
void alloc_heap_shuffle(uint64_t seed);     // junk allocations to move addresses

// innermost frame of the current call stack that belongs to ezc3d (demangled, no arguments)
std::string innermost_ezc3d_fn();
std::string outermost_ezc3d_fn();

void install_crash_handlers();              // SIGSEGV/SIGABRT/SIGBUS/SIGFPE -> report + _exit(70)
void crash_context(const char *ctx);        // text printed by the crash handler (e.g. "run 17")

} // namespace sim
