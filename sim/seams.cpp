#include "seams.h"
#include "prng.h"
#include "simsched.h"

#include <algorithm>
#include <atomic>
#include <csignal>
#include <cstdio>
#include <cstdlib>
#include <cstring>
#include <cxxabi.h>
#include <dlfcn.h>
#include <execinfo.h>
#include <istream>
#include <unistd.h>
#include <vector>

namespace sim {

namespace {
thread_local BudgetState t_budget;
thread_local uint64_t t_reads = 0, t_rbytes = 0;
thread_local int64_t t_live = 0; // bytes allocated minus bytes freed by this thread (heap budgets are per caller thread)
std::atomic<uint64_t> g_live{0}, g_count{0}, g_fill_seed{0x5eed};
char g_crash_ctx[512] = "";

bool in_parameter_values(); // the stack passes through the readers of a parameter's value matrix
void note_site(BudgetState &b) {
    b.armed = false; // no recursion through the allocator seam while we symbolise
    std::string s = outermost_ezc3d_fn();
    // heap trips (plain/g++ build only) also name the innermost library function: an allocation driven by a length field
    // (readString) is another defect than one driven by dimensions or header counts
    if (std::strncmp(b.kind, "heap", 4) == 0) s += "/" + innermost_ezc3d_fn();
    // the known finding in the parameter section is "values are read according to the stored dimensions": a trip is that
    // finding only if the reads went into the value readers. Where the LAST read happened says little (the count crosses
    // the limit wherever it happens to), so the reads of the second half of the budget were sampled.
    else if (s == "ezc3d::ParametersNS::Parameters::Parameters" && (b.samples ? 2 * b.samples_in_values < b.samples : !in_parameter_values())) s += "/outside-parameter-values";
    std::snprintf(b.site, sizeof b.site, "%s", s.c_str());
}
} // namespace

BudgetState &budget_state() { return t_budget; }

namespace {
thread_local int (*t_phase_fn)() = nullptr;
thread_local ClaimedCounts (*t_claim_fn)() = nullptr;
}
void budget_set_probes(int (*phase_fn)(), ClaimedCounts (*claim_fn)()) { t_phase_fn = phase_fn; t_claim_fn = claim_fn; }

// called by the read seam before it counts a read
void budget_note_phase(BudgetState &b) {
    if (!b.in_data && t_phase_fn && t_phase_fn() == 1) { b.in_data = true; b.reads_at_data = b.reads; b.bytes_at_data = b.bytes; }
    if (!b.in_data && (b.reads & 63) == 0 && b.reads > b.max_reads / 2) {
        HarnessScope hs; // the symboliser allocates: no scheduling point, no budget accounting
        bool armed = b.armed;
        b.armed = false;
        b.samples++;
        if (in_parameter_values()) b.samples_in_values++;
        b.armed = armed;
    }
}

// A budget is exceeded. Returns true if the load may go on (trip explained by the counts the file claims and the
// enlarged budget is affordable); otherwise marks the state tripped and the caller throws.
bool budget_trip(BudgetState &b, const char *kind) {
    static const char *BEYOND[] = {"reads-beyond-claimed-counts", "bytes-beyond-claimed-counts", "heap-beyond-claimed-counts"};
    int ki = std::strcmp(kind, "reads") == 0 ? 0 : std::strcmp(kind, "bytes") == 0 ? 1 : 2;
    bool armed = b.armed;
    b.armed = false;
    if (b.in_data && t_claim_fn) {
        if (b.soft) { // already running on the enlarged budget
            b.tripped = true; b.kind = BEYOND[ki]; note_site(b); return false;
        }
        ClaimedCounts cc = t_claim_fn();
        const uint64_t CAP = 1ull << 40;
        uint64_t claimed = std::min(cc.values, CAP), objects = std::min(cc.objects, CAP);
        b.claimed_values = claimed; b.claimed_objects = objects; b.claimed = cc;
        uint64_t nr = b.reads_at_data + claimed + 1 + 16;
        uint64_t nb = b.bytes_at_data + 4 * claimed + 1 + 64;
        uint64_t nh = 512 * b.file_size + (1u << 20) + 1024 * objects; // a named point / channel and its share of the containers, copied once on the way in
        bool explained = ki == 0 ? nr > b.max_reads : ki == 1 ? nb > b.max_bytes : nh > b.max_heap;
        if (!explained) { b.tripped = true; b.kind = BEYOND[ki]; note_site(b); return false; }
        bool affordable = nr <= 4 * (2 * b.file_size + 1024) && nh <= std::min<uint64_t>(4 * (512 * b.file_size + (1u << 20)), 1ull << 26);
        if (affordable) {
            b.soft = true; b.soft_kind = kind; b.kind = kind; note_site(b);
            std::memcpy(b.soft_site, b.site, sizeof b.soft_site);
            b.max_reads = std::max(b.max_reads, nr); b.max_bytes = std::max(b.max_bytes, nb); b.max_heap = std::max(b.max_heap, nh);
            b.armed = armed;
            return true;
        }
    }
    b.tripped = true; b.kind = kind; note_site(b);
    if (std::getenv("SIM_DEBUG_BUDGET")) if (FILE *dbg = std::fopen(std::getenv("SIM_DEBUG_BUDGET"), "a")) { std::fprintf(dbg, "[budget] trip kind=%s site=%s reads=%llu/%llu bytes=%llu/%llu window=%lld max_heap=%llu in_data=%d claimed=%llu objs=%llu soft=%d S=%llu\n", kind, b.site,
        (unsigned long long)b.reads, (unsigned long long)b.max_reads, (unsigned long long)b.bytes, (unsigned long long)b.max_bytes, (long long)b.window_live, (unsigned long long)b.max_heap, b.in_data, (unsigned long long)b.claimed_values, (unsigned long long)b.claimed_objects, b.soft, (unsigned long long)b.file_size); std::fclose(dbg); }
    return false;
}

void budget_arm(uint64_t S) {
    t_budget = BudgetState();
    t_budget.file_size = S;
    t_budget.max_reads = 2 * S + 1024;
    t_budget.max_bytes = 4 * S + 65536;
    t_budget.max_heap = 512 * S + (1u << 20);
    t_budget.heap_base = static_cast<uint64_t>(t_live > 0 ? t_live : 0);
    t_budget.armed = true;
}
BudgetState budget_disarm() {
    BudgetState b = t_budget;
    t_budget.armed = false;
    return b;
}

uint64_t seam_read_calls() { return t_reads; }
uint64_t seam_read_bytes() { return t_rbytes; }
void seam_reset_counters() { t_reads = 0; t_rbytes = 0; }

// demangled names (no arguments) of the frames of the current call stack that are members of ezc3d, innermost first,
// up to but not including the c3d constructor
static std::vector<std::string> ezc3d_stack() {
    void *frames[96];
    int n = backtrace(frames, 96);
    std::vector<std::string> out;
    for (int i = 0; i < n; ++i) {
        Dl_info info;
        if (!dladdr(frames[i], &info) || !info.dli_sname) continue;
        int status = 0;
        char *dem = abi::__cxa_demangle(info.dli_sname, nullptr, nullptr, &status);
        std::string name = (status == 0 && dem) ? dem : info.dli_sname;
        std::free(dem);
        if (name.compare(0, 7, "ezc3d::") != 0) continue; // a member of the library itself, not a std:: template over its types
        size_t p = name.find('(');
        if (p != std::string::npos) name.resize(p);
        if (name.find(' ') != std::string::npos) continue; // "ezc3d::T* std::helper<...>": a std:: template that merely returns a library type
        p = name.find('[');
        if (p != std::string::npos) name.resize(p);
        if (name == "ezc3d::c3d::c3d" && !out.empty()) break;
        out.push_back(name);
    }
    return out;
}
static std::string ezc3d_fn(bool outermost) {
    std::vector<std::string> st = ezc3d_stack();
    if (st.empty()) return "?";
    return outermost ? st.back() : st.front();
}
namespace {
bool in_parameter_values() {
    for (const std::string &f : ezc3d_stack())
        if (f.find("readParam") != std::string::npos || f.find("eadMatrix") != std::string::npos) return true;
    return false;
}
}
std::string innermost_ezc3d_fn() { return ezc3d_fn(false); }
// the section reader (Header / Parameters / Data constructor ...) the load is in: stable across compilers and inlining
std::string outermost_ezc3d_fn() { return ezc3d_fn(true); }

void crash_context(const char *ctx) { std::snprintf(g_crash_ctx, sizeof g_crash_ctx, "%s", ctx); }

namespace {
void crash_handler(int sig) {
    static volatile sig_atomic_t entered = 0;
    if (entered) _exit(71);
    entered = 1;
    char buf[1024];
    // no allocation in here: the heap may be the thing that is broken. Mangled name out, the parent demangles.
    void *frames[64];
    int n = backtrace(frames, 64);
    const char *fn = "?";
    for (int i = 0; i < n; ++i) {
        Dl_info info;
        if (!dladdr(frames[i], &info) || !info.dli_sname) continue;
        if (std::strncmp(info.dli_sname, "_ZN5ezc3d", 9) == 0 || std::strncmp(info.dli_sname, "_ZNK5ezc3d", 10) == 0) { fn = info.dli_sname; break; } // a member of ezc3d::
    }
    int len = std::snprintf(buf, sizeof buf, "\nCRASH sig=%d fn=%s ctx=%s\n", sig, fn, g_crash_ctx);
    if (len > 0) { ssize_t w = ::write(1, buf, static_cast<size_t>(len)); (void)w; }
    _exit(70);
}
} // namespace

void install_crash_handlers() {
#if !defined(SIM_ASAN) && !defined(SIM_TSAN)
    static char altstack[1 << 16];
    { void *warm[4]; backtrace(warm, 4); } // loads libgcc now, not inside the handler
    stack_t ss;
    ss.ss_sp = altstack; ss.ss_size = sizeof altstack; ss.ss_flags = 0;
    sigaltstack(&ss, nullptr);
    struct sigaction sa;
    std::memset(&sa, 0, sizeof sa);
    sa.sa_handler = crash_handler;
    sa.sa_flags = SA_ONSTACK | SA_NODEFER;
    sigaction(SIGSEGV, &sa, nullptr);
    sigaction(SIGBUS, &sa, nullptr);
    sigaction(SIGABRT, &sa, nullptr);
    sigaction(SIGFPE, &sa, nullptr);
    sigaction(SIGILL, &sa, nullptr);
    sigaction(SIGALRM, &sa, nullptr); // watchdog of a forked case: report where the load is stuck
#endif
}

// ---------------------------------------------------------------------------------------
// allocator seam

#ifdef SIM_ALLOC_SEAM
bool alloc_seam_present() { return true; }
#else
bool alloc_seam_present() { return false; }
#endif
void alloc_set_fill_seed(uint64_t seed) { g_fill_seed.store(seed); g_count.store(0); } // new epoch: the k-th block of a run always gets the same garbage
uint64_t alloc_live_bytes() { return g_live.load(); }
uint64_t alloc_count() { return g_count.load(); }
void alloc_heap_shuffle(uint64_t seed) {
    // a few junk blocks of seeded sizes that stay allocated: moves later addresses around
    Rng r(seed);
    int n = static_cast<int>(r.below(8));
    for (int i = 0; i < n; ++i) {
        void *p = std::malloc(16 + r.below(4000));
        (void)p; // intentionally kept (bounded: < 32 KiB per call)
    }
}

} // namespace sim

#ifdef SIM_ALLOC_SEAM
namespace {
const size_t HDR = 16;
inline void *sim_alloc(size_t size, bool nothrow) {
    sim::alloc_yield_hook(); // C18: an allocation inside library code is a point where another thread may run
    sim::BudgetState &b = sim::budget_state();
    const bool mine = !sim::in_harness_scope(); // the simulator's own blocks (schedule log, disk images) are not the load's
    if (b.armed && mine) {
        uint64_t above = static_cast<uint64_t>(b.window_live > 0 ? b.window_live : 0);
        while (above + size > b.max_heap) {
            if (sim::budget_trip(b, "heap")) continue; // explained by the counts the file claims: budget enlarged once
            if (nothrow) return nullptr;
            throw sim::HeapBudgetExceeded();
        }
        if (above + size > b.heap_peak) b.heap_peak = above + size;
    }
    if (size > (1ull << 30)) { if (nothrow) return nullptr; throw std::bad_alloc(); } // simulated address-space limit
    void *raw = std::malloc(size + HDR);
    if (!raw) { if (nothrow) return nullptr; throw std::bad_alloc(); }
    *static_cast<uint64_t *>(raw) = size;
    uint64_t c = sim::g_count.fetch_add(1) + 1;
    sim::g_live.fetch_add(size);
    sim::t_live += static_cast<int64_t>(size);
    if (b.armed && mine) b.window_live += static_cast<int64_t>(size);
    unsigned char fill = static_cast<unsigned char>(sim::mix(sim::g_fill_seed.load(), c) & 0xff);
    void *p = static_cast<char *>(raw) + HDR;
    std::memset(p, fill, size < (1u << 20) ? size : (1u << 20)); // large blocks: only the first MiB (keeps them virtual)
    return p;
}
inline void sim_free(void *p) noexcept {
    if (!p) return;
    void *raw = static_cast<char *>(p) - HDR;
    uint64_t size = *static_cast<uint64_t *>(raw);
    sim::g_live.fetch_sub(size);
    sim::t_live -= static_cast<int64_t>(size);
    { sim::BudgetState &b = sim::budget_state(); if (b.armed && !sim::in_harness_scope()) b.window_live -= static_cast<int64_t>(size); }
    std::free(raw);
}
} // namespace

void *operator new(size_t n) { return sim_alloc(n, false); }
void *operator new[](size_t n) { return sim_alloc(n, false); }
void *operator new(size_t n, const std::nothrow_t &) noexcept { return sim_alloc(n, true); }
void *operator new[](size_t n, const std::nothrow_t &) noexcept { return sim_alloc(n, true); }
void operator delete(void *p) noexcept { sim_free(p); }
void operator delete[](void *p) noexcept { sim_free(p); }
void operator delete(void *p, size_t) noexcept { sim_free(p); }
void operator delete[](void *p, size_t) noexcept { sim_free(p); }
void operator delete(void *p, const std::nothrow_t &) noexcept { sim_free(p); }
void operator delete[](void *p, const std::nothrow_t &) noexcept { sim_free(p); }
#endif

// ---------------------------------------------------------------------------------------
// read seam: every std::istream::read issued by ezc3d

#ifndef SIM_NO_WRAP
extern "C" std::istream *__real__ZNSi4readEPcl(std::istream *, char *, long);
extern "C" std::istream *__wrap__ZNSi4readEPcl(std::istream *self, char *s, long n) {
    sim::t_reads++;
    sim::t_rbytes += static_cast<uint64_t>(n > 0 ? n : 0);
    sim::BudgetState &b = sim::budget_state();
    if (b.armed) {
        sim::budget_note_phase(b);
        b.reads++;
        b.bytes += static_cast<uint64_t>(n > 0 ? n : 0);
        if (b.reads > b.max_reads && !sim::budget_trip(b, "reads")) throw sim::ReadBudgetExceeded{"reads"};
        if (b.bytes > b.max_bytes && !sim::budget_trip(b, "bytes")) throw sim::ReadBudgetExceeded{"bytes"};
    }
    sim::yield_point(sim::Y_READ_PRE);
    std::istream *r = __real__ZNSi4readEPcl(self, s, n);
    sim::yield_point(sim::Y_READ_POST);
    return r;
}
// the same seam for std::istream::readsome (a library that switches read primitive must stay under the budgets)
extern "C" long __real__ZNSi8readsomeEPcl(std::istream *, char *, long);
extern "C" long __wrap__ZNSi8readsomeEPcl(std::istream *self, char *s, long n) {
    sim::t_reads++;
    sim::t_rbytes += static_cast<uint64_t>(n > 0 ? n : 0);
    sim::BudgetState &b = sim::budget_state();
    if (b.armed) {
        sim::budget_note_phase(b);
        b.reads++;
        b.bytes += static_cast<uint64_t>(n > 0 ? n : 0);
        if (b.reads > b.max_reads && !sim::budget_trip(b, "reads")) throw sim::ReadBudgetExceeded{"reads"};
        if (b.bytes > b.max_bytes && !sim::budget_trip(b, "bytes")) throw sim::ReadBudgetExceeded{"bytes"};
    }
    sim::yield_point(sim::Y_READ_PRE);
    long r = __real__ZNSi8readsomeEPcl(self, s, n);
    sim::yield_point(sim::Y_READ_POST);
    return r;
}
#endif
