// Canonical, pointer-free snapshot of an ezc3d::c3d taken only through public const accessors.
#pragma once
#include <cstdint>
#include <string>
#include <vector>

namespace ezc3d { class c3d; namespace DataNS { class Frame; } namespace ParametersNS { namespace GroupNS { class Parameter; } } }

namespace sim {

struct SnapParam {
    std::string name, desc;
    bool locked = false;
    int type = 0; // -1 char, 1 byte, 2 int, 4 float, 10000 none
    std::vector<uint64_t> dims;
    std::vector<int64_t> ints;
    std::vector<uint32_t> floats;
    std::vector<std::string> strs;
    bool operator==(const SnapParam &o) const;
};
struct SnapGroup {
    std::string name, desc;
    bool locked = false;
    std::vector<SnapParam> params;
    const SnapParam *find(const std::string &n) const;
};
struct SnapPoint {
    std::string name;
    uint32_t x = 0, y = 0, z = 0, r = 0;
    bool operator==(const SnapPoint &o) const { return name == o.name && x == o.x && y == o.y && z == o.z && r == o.r; }
};
struct SnapChan {
    std::string name;
    uint32_t v = 0;
    bool operator==(const SnapChan &o) const { return name == o.name && v == o.v; }
};
struct SnapFrame {
    std::vector<SnapPoint> pts;
    std::vector<std::vector<SnapChan>> subs;
    bool operator==(const SnapFrame &o) const { return pts == o.pts && subs == o.subs; }
    bool empty() const { return pts.empty() && subs.empty(); }
};
struct SnapHeader {
    uint64_t zerosBefore = 0, paramAddr = 0, checksum = 0;
    uint64_t nbPoints = 0, nbAnalogsMeas = 0, nbAnalogs = 0, first = 0, last = 0, nbFrames = 0, gap = 0;
    int64_t scale = 0;
    uint64_t dataStart = 0, nbAnalogByFrame = 0;
    uint32_t rate = 0;
    int64_t e1 = 0, e2 = 0, e3 = 0, e4 = 0;
    uint64_t keyLabelPresent = 0, firstBlockKeyLabel = 0, fourChar = 0, nbEvents = 0;
    std::vector<uint32_t> evTimes;
    std::vector<uint64_t> evDisp;
    std::vector<std::string> evLabels;
};
struct Snapshot {
    SnapHeader h;
    uint64_t pStart = 0, pChecksum = 0, pBlocks = 0, pProc = 0;
    std::vector<SnapGroup> groups;
    std::vector<SnapFrame> frames;
    const SnapGroup *group(const std::string &n) const;
    const SnapParam *param(const std::string &g, const std::string &p) const;
};

Snapshot take_snapshot(const ezc3d::c3d &c);
SnapFrame snap_frame(const ezc3d::DataNS::Frame &f);
SnapParam snap_param(const ezc3d::ParametersNS::GroupNS::Parameter &p);

struct DiffOpts {
    bool upper_names = false;       // compare group/parameter names upper-cased (file round trip)
    bool skip_data_start = false;   // POINT:DATA_START value and header data-start word
    bool skip_prologue = false;     // parameter-section prologue (pStart, pBlocks, pProc, pChecksum)
    bool skip_file_position = false;// zerosBefore / paramAddr (positional facts of a file)
    bool skip_header = false;
    bool skip_params = false;
    bool skip_frames = false;
    bool skip_reserved_words = false;   // header emptyBlock1..4: not part of the content C01/C04 speak about
    bool ignore_empty_subframes = false; // a sub-frame without channels carries no sample: [] == [[],[]]
};
// "" if equal, otherwise "<path>: <a> != <b>" for the first difference; facet gets a stable,
// index-free description of where it is (used in violation keys).
std::string diff_snapshots(const Snapshot &a, const Snapshot &b, const DiffOpts &o, std::string *facet = nullptr);
std::string diff_param(const SnapParam &a, const SnapParam &b, bool upper, std::string *facet = nullptr);
std::string diff_frame(const SnapFrame &a, const SnapFrame &b, std::string *facet = nullptr, bool ignore_empty_subframes = false);

uint64_t hash_snapshot(const Snapshot &s);
std::string dump_snapshot(const Snapshot &s, size_t max_frames = 4); // human readable, for replay files / samples
std::string upper(const std::string &s);

} // namespace sim
