// Independent implementation of the C3D file format (written from doc/c3dformat_ug.pdf; shares
// no code with ezc3d). Decoder follows only the file's own pointers; encoder can emit the
// vendor layout variants ezc3d declares supported.
#pragma once
#include "prng.h"
#include "snapshot.h"
#include <cstdint>
#include <string>
#include <vector>

namespace sim {

struct RefParam {
    std::string name, desc;
    bool locked = false;
    int group_id = 0;        // positive id of the owning group
    int type = 0;            // -1, 1, 2, 4
    std::vector<uint8_t> dims;
    std::vector<uint8_t> raw; // prod(dims) * |type| bytes exactly as stored
    uint64_t rec_off = 0, data_off = 0, next_off_field = 0;
};
struct RefGroup {
    std::string name, desc;
    bool locked = false;
    int id = 0; // positive
    uint64_t rec_off = 0;
};
enum FieldKind : int {
    FK_HDR_PARAM_BLOCK, FK_HDR_MAGIC, FK_HDR_NPOINTS, FK_HDR_NANALOG, FK_HDR_FIRST, FK_HDR_LAST, FK_HDR_GAP, FK_HDR_SCALE,
    FK_HDR_DATA_START, FK_HDR_SUBFRAMES, FK_HDR_RATE, FK_HDR_EVENTS, FK_PRO_START, FK_PRO_MAGIC, FK_PRO_BLOCKS, FK_PRO_PROC,
    FK_REC_NAMELEN, FK_REC_ID, FK_REC_NAME, FK_REC_NEXT, FK_REC_TYPE, FK_REC_NDIMS, FK_REC_DIM, FK_REC_DATA, FK_REC_DESCLEN,
    FK_REC_DESC, FK_TERMINATOR, FK_VAL_POINT_USED, FK_VAL_POINT_FRAMES, FK_VAL_POINT_RATE, FK_VAL_POINT_DATA_START,
    FK_VAL_POINT_SCALE, FK_VAL_ANALOG_USED, FK_VAL_ANALOG_RATE, FK_DATA, FK_N
};
const char *field_kind_name(int k);
struct Field {
    uint64_t off, len;
    int kind;
};

struct RefFile {
    // header
    uint64_t hdr_off = 0; // leading zero bytes skipped
    unsigned param_block = 0, magic = 0;
    unsigned n_points = 0, n_analog_meas = 0, first = 0, last = 0, gap = 0, data_start = 0, subframes = 0;
    uint32_t scale_bits = 0, rate_bits = 0;
    unsigned key_label_present = 0, first_block_key_label = 0, four_char = 0, n_events = 0;
    std::vector<uint32_t> ev_times;  // 18
    std::vector<uint8_t> ev_flags;   // 18 bytes
    std::vector<std::string> ev_labels; // 18 x 4 raw chars
    // parameter section
    uint64_t param_off = 0;
    unsigned pro_start = 0, pro_magic = 0, pro_blocks = 0, pro_proc = 0;
    std::vector<RefGroup> groups;   // in file order
    std::vector<RefParam> params;   // in file order
    uint64_t terminator_off = 0;    // offset of the zero name-length byte that ends the section
    bool terminated_by_zero_next = false;
    uint64_t param_end = 0;         // param_off + 512 * pro_blocks
    // data
    uint64_t data_off = 0;          // from header data_start
    std::vector<Field> fields;
    uint64_t file_size = 0;

    const RefGroup *group_by_name(const std::string &n) const;
    const RefGroup *group_by_id(int id) const;
    const RefParam *param(const std::string &g, const std::string &p) const;
};

// Strict decode: "" on success, otherwise what is malformed (and facet: short stable id).
std::string ref_decode(const std::vector<uint8_t> &bytes, RefFile &out, std::string *facet = nullptr);

// C03: the bytes of a saved file vs. the content held in memory. "" if fine.
std::string c03_check(const std::vector<uint8_t> &bytes, const Snapshot &mem, std::string *facet);

// Content a spec-level reader extracts, expressed as a Snapshot comparable with ezc3d's
// (groups in id order, names as stored, strings trimmed, scalars with dims [1]).
bool ref_to_snapshot(const RefFile &f, const std::vector<uint8_t> &bytes, Snapshot &out, std::string *why);

// ---- encoder ------------------------------------------------------------------------
struct EncLayout {
    unsigned leading_zeros = 0;       // zero bytes before the header (multiple of 512 in real files)
    bool zero_prologue = false;       // Qualisys: first two prologue bytes zero
    unsigned param_block = 2;         // where the parameter section starts
    bool shuffle_groups = false, shuffle_params = false, sparse_ids = false;
    bool end_with_zero_next = false;  // last record has next-offset 0 instead of a 0 name-length terminator
    bool empty_analog_group = false;  // ANALOG group present without parameters (Optotrak)
    bool pad_strings = true;          // 1-D strings padded with spaces to their declared width
    int label_delta = 0;              // labels fewer(-)/more(+) than points
    unsigned first_frame = 1;
    bool events = false;
    bool byte_params = false, three_d_params = false, long_desc = false;
    bool reserved_nonzero = false;    // non-zero bytes in the reserved header words (readers must carry or ignore them)
    int force_group_desc = -1;        // >= 0: every group gets a description of exactly that many characters
    uint64_t seed = 1;
};
struct EncContent {
    unsigned points = 0, channels = 0, subframes = 0, frames = 0;
    uint32_t point_rate_bits = 0x42c80000; // 100
    uint64_t value_seed = 1;
};
EncLayout gen_layout(Rng &r);
EncContent gen_content(Rng &r);
std::vector<uint8_t> ref_encode(const EncLayout &L, const EncContent &C);
std::string layout_to_text(const EncLayout &L, const EncContent &C);

} // namespace sim
