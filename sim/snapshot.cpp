#include "snapshot.h"
#include "prng.h"
#include "ezc3d.h"

#include <sstream>

namespace sim {

std::string upper(const std::string &s) {
    std::string r = s;
    for (auto &c : r) c = static_cast<char>(::toupper(static_cast<unsigned char>(c)));
    return r;
}

bool SnapParam::operator==(const SnapParam &o) const {
    return name == o.name && desc == o.desc && locked == o.locked && type == o.type && dims == o.dims &&
           ints == o.ints && floats == o.floats && strs == o.strs;
}
const SnapParam *SnapGroup::find(const std::string &n) const {
    for (auto &p : params) if (p.name == n) return &p;
    return nullptr;
}
const SnapGroup *Snapshot::group(const std::string &n) const {
    for (auto &g : groups) if (g.name == n) return &g;
    return nullptr;
}
const SnapParam *Snapshot::param(const std::string &g, const std::string &p) const {
    const SnapGroup *gr = group(g);
    return gr ? gr->find(p) : nullptr;
}

SnapParam snap_param(const ezc3d::ParametersNS::GroupNS::Parameter &p) {
    SnapParam s;
    s.name = p.name();
    s.desc = p.description();
    s.locked = p.isLocked();
    s.type = static_cast<int>(p.type());
    for (size_t d : p.dimension()) s.dims.push_back(d);
    switch (p.type()) {
    case ezc3d::DATA_TYPE::CHAR: s.strs = p.valuesAsString(); break;
    case ezc3d::DATA_TYPE::BYTE: for (int v : p.valuesAsByte()) s.ints.push_back(v); break;
    case ezc3d::DATA_TYPE::INT: for (int v : p.valuesAsInt()) s.ints.push_back(v); break;
    case ezc3d::DATA_TYPE::FLOAT: for (float v : p.valuesAsFloat()) s.floats.push_back(f2bits(v)); break;
    default: break;
    }
    return s;
}

SnapFrame snap_frame(const ezc3d::DataNS::Frame &f) {
    SnapFrame s;
    const auto &pts = f.points();
    size_t np = pts.nbPoints();
    s.pts.reserve(np);
    for (size_t i = 0; i < np; ++i) {
        const auto &p = pts.point(i);
        SnapPoint sp;
        sp.name = p.name();
        sp.x = f2bits(p.x()); sp.y = f2bits(p.y()); sp.z = f2bits(p.z()); sp.r = f2bits(p.residual());
        s.pts.push_back(std::move(sp));
    }
    const auto &an = f.analogs();
    size_t ns = an.nbSubframes();
    s.subs.resize(ns);
    for (size_t k = 0; k < ns; ++k) {
        const auto &sf = an.subframe(k);
        size_t nc = sf.nbChannels();
        s.subs[k].reserve(nc);
        for (size_t c = 0; c < nc; ++c) {
            const auto &ch = sf.channel(c);
            SnapChan sc;
            sc.name = ch.name();
            sc.v = f2bits(ch.data());
            s.subs[k].push_back(std::move(sc));
        }
    }
    return s;
}

Snapshot take_snapshot(const ezc3d::c3d &c) {
    Snapshot s;
    const ezc3d::Header &h = c.header();
    s.h.zerosBefore = h.nbOfZerosBeforeHeader();
    s.h.paramAddr = h.parametersAddress();
    s.h.checksum = h.checksum();
    s.h.nbPoints = h.nb3dPoints();
    s.h.nbAnalogsMeas = h.nbAnalogsMeasurement();
    s.h.nbAnalogs = h.nbAnalogs();
    s.h.first = h.firstFrame();
    s.h.last = h.lastFrame();
    s.h.nbFrames = h.nbFrames();
    s.h.gap = h.nbMaxInterpGap();
    s.h.scale = h.scaleFactor();
    s.h.dataStart = h.dataStart();
    s.h.nbAnalogByFrame = h.nbAnalogByFrame();
    s.h.rate = f2bits(h.frameRate());
    s.h.e1 = h.emptyBlock1(); s.h.e2 = h.emptyBlock2(); s.h.e3 = h.emptyBlock3(); s.h.e4 = h.emptyBlock4();
    s.h.keyLabelPresent = h.keyLabelPresent();
    s.h.firstBlockKeyLabel = h.firstBlockKeyLabel();
    s.h.fourChar = h.fourCharPresent();
    s.h.nbEvents = h.nbEvents();
    for (float t : h.eventsTime()) s.h.evTimes.push_back(f2bits(t));
    for (size_t d : h.eventsDisplay()) s.h.evDisp.push_back(d);
    s.h.evLabels = h.eventsLabel();

    const auto &P = c.parameters();
    s.pStart = P.parametersStart();
    s.pChecksum = P.checksum();
    s.pBlocks = P.nbParamBlock();
    s.pProc = P.processorType();
    size_t ng = P.nbGroups();
    s.groups.resize(ng);
    for (size_t g = 0; g < ng; ++g) {
        const auto &G = P.group(g);
        s.groups[g].name = G.name();
        s.groups[g].desc = G.description();
        s.groups[g].locked = G.isLocked();
        size_t np = G.nbParameters();
        s.groups[g].params.reserve(np);
        for (size_t p = 0; p < np; ++p) s.groups[g].params.push_back(snap_param(G.parameter(p)));
    }
    const auto &D = c.data();
    size_t nf = D.nbFrames();
    s.frames.reserve(nf);
    for (size_t f = 0; f < nf; ++f) s.frames.push_back(snap_frame(D.frame(f)));
    return s;
}

namespace {
template <class T> std::string tos(const T &v) { std::ostringstream o; o << v; return o.str(); }
std::string hex32(uint32_t v) { char b[16]; std::snprintf(b, sizeof b, "0x%08x", v); return b; }
std::string q(const std::string &s) {
    std::string r = "\"";
    for (unsigned char c : s) {
        if (c == '"' || c == '\\') { r += '\\'; r += static_cast<char>(c); }
        else if (c < 32 || c > 126) { char b[8]; std::snprintf(b, sizeof b, "\\x%02x", c); r += b; }
        else r += static_cast<char>(c);
    }
    return r + "\"";
}
#define DIFF_FIELD(pathstr, facetstr, A, B, FMT)                                   \
    if (!((A) == (B))) {                                                            \
        if (facet) *facet = (facetstr);                                             \
        return std::string(pathstr) + ": " + FMT(A) + " != " + FMT(B);             \
    }
std::string fmt_u(uint64_t v) { return tos(v); }
std::string fmt_i(int64_t v) { return tos(v); }
std::string fmt_b(bool v) { return v ? "true" : "false"; }
} // namespace

std::string diff_param(const SnapParam &a, const SnapParam &b, bool up, std::string *facet) {
    std::string an = up ? upper(a.name) : a.name, bn = up ? upper(b.name) : b.name;
    DIFF_FIELD("name", "name", an, bn, q)
    DIFF_FIELD("type", "type", a.type, b.type, fmt_i)
    DIFF_FIELD("locked", "lock", a.locked, b.locked, fmt_b)
    DIFF_FIELD("description", "description", a.desc, b.desc, q)
    if (a.dims != b.dims) {
        if (facet) *facet = "dims";
        std::string s = "dims: [";
        for (auto d : a.dims) s += tos(d) + ",";
        s += "] != [";
        for (auto d : b.dims) s += tos(d) + ",";
        return s + "]";
    }
    DIFF_FIELD("nvalues(int)", "values", a.ints.size(), b.ints.size(), fmt_u)
    DIFF_FIELD("nvalues(float)", "values", a.floats.size(), b.floats.size(), fmt_u)
    DIFF_FIELD("nvalues(str)", "values", a.strs.size(), b.strs.size(), fmt_u)
    for (size_t i = 0; i < a.ints.size(); ++i) DIFF_FIELD("int[" + tos(i) + "]", "values", a.ints[i], b.ints[i], fmt_i)
    for (size_t i = 0; i < a.floats.size(); ++i) DIFF_FIELD("float[" + tos(i) + "]", "values", a.floats[i], b.floats[i], hex32)
    for (size_t i = 0; i < a.strs.size(); ++i) DIFF_FIELD("str[" + tos(i) + "]", "values", a.strs[i], b.strs[i], q)
    return "";
}

static bool all_subs_empty(const SnapFrame &f) { for (auto &s : f.subs) if (!s.empty()) return false; return true; }

static std::string diff_frame_impl(const SnapFrame &a, const SnapFrame &b, std::string *facet);
std::string diff_frame(const SnapFrame &a0, const SnapFrame &b0, std::string *facet, bool ignoreEmptySubs) {
    if (a0 == b0) return "";
    if (ignoreEmptySubs && (all_subs_empty(a0) || all_subs_empty(b0)) && a0.subs.size() != b0.subs.size()) {
        SnapFrame a = a0, b = b0;
        if (all_subs_empty(a)) a.subs.clear();
        if (all_subs_empty(b)) b.subs.clear();
        return diff_frame_impl(a, b, facet);
    }
    return diff_frame_impl(a0, b0, facet);
}
static std::string diff_frame_impl(const SnapFrame &a, const SnapFrame &b, std::string *facet) {
    DIFF_FIELD("nbPoints", "frame.nbPoints", a.pts.size(), b.pts.size(), fmt_u)
    for (size_t i = 0; i < a.pts.size(); ++i) {
        if (a.pts[i] == b.pts[i]) continue;
#define PP(x) (std::string("point[") + tos(i) + "]." + x)
        DIFF_FIELD(PP("name"), "frame.point.name", a.pts[i].name, b.pts[i].name, q)
        DIFF_FIELD(PP("x"), "frame.point.x", a.pts[i].x, b.pts[i].x, hex32)
        DIFF_FIELD(PP("y"), "frame.point.y", a.pts[i].y, b.pts[i].y, hex32)
        DIFF_FIELD(PP("z"), "frame.point.z", a.pts[i].z, b.pts[i].z, hex32)
        DIFF_FIELD(PP("residual"), "frame.point.residual", a.pts[i].r, b.pts[i].r, hex32)
#undef PP
    }
    DIFF_FIELD("nbSubframes", "frame.nbSubframes", a.subs.size(), b.subs.size(), fmt_u)
    for (size_t k = 0; k < a.subs.size(); ++k) {
        if (a.subs[k] == b.subs[k]) continue;
        DIFF_FIELD("sub[" + tos(k) + "].nbChannels", "frame.nbChannels", a.subs[k].size(), b.subs[k].size(), fmt_u)
        for (size_t c = 0; c < a.subs[k].size(); ++c) {
            if (a.subs[k][c] == b.subs[k][c]) continue;
            DIFF_FIELD("sub[" + tos(k) + "].ch[" + tos(c) + "].name", "frame.channel.name", a.subs[k][c].name, b.subs[k][c].name, q)
            DIFF_FIELD("sub[" + tos(k) + "].ch[" + tos(c) + "].value", "frame.channel.value", a.subs[k][c].v, b.subs[k][c].v, hex32)
        }
    }
    return "";
}

std::string diff_snapshots(const Snapshot &a, const Snapshot &b, const DiffOpts &o, std::string *facet) {
    if (!o.skip_header) {
        if (!o.skip_file_position) {
            DIFF_FIELD("header.zerosBefore", "header.zerosBefore", a.h.zerosBefore, b.h.zerosBefore, fmt_u)
            DIFF_FIELD("header.paramAddr", "header.paramAddr", a.h.paramAddr, b.h.paramAddr, fmt_u)
        }
        DIFF_FIELD("header.checksum", "header.checksum", a.h.checksum, b.h.checksum, fmt_u)
        DIFF_FIELD("header.nb3dPoints", "header.nb3dPoints", a.h.nbPoints, b.h.nbPoints, fmt_u)
        DIFF_FIELD("header.nbAnalogsMeasurement", "header.nbAnalogsMeasurement", a.h.nbAnalogsMeas, b.h.nbAnalogsMeas, fmt_u)
        DIFF_FIELD("header.nbAnalogs", "header.nbAnalogs", a.h.nbAnalogs, b.h.nbAnalogs, fmt_u)
        DIFF_FIELD("header.firstFrame", "header.firstFrame", a.h.first, b.h.first, fmt_u)
        DIFF_FIELD("header.lastFrame", "header.lastFrame", a.h.last, b.h.last, fmt_u)
        DIFF_FIELD("header.nbFrames", "header.nbFrames", a.h.nbFrames, b.h.nbFrames, fmt_u)
        DIFF_FIELD("header.nbMaxInterpGap", "header.nbMaxInterpGap", a.h.gap, b.h.gap, fmt_u)
        DIFF_FIELD("header.scaleFactor", "header.scaleFactor", a.h.scale, b.h.scale, fmt_i)
        if (!o.skip_data_start) DIFF_FIELD("header.dataStart", "header.dataStart", a.h.dataStart, b.h.dataStart, fmt_u)
        DIFF_FIELD("header.nbAnalogByFrame", "header.nbAnalogByFrame", a.h.nbAnalogByFrame, b.h.nbAnalogByFrame, fmt_u)
        DIFF_FIELD("header.frameRate", "header.frameRate", a.h.rate, b.h.rate, hex32)
        if (!o.skip_reserved_words) {
        DIFF_FIELD("header.emptyBlock1", "header.emptyBlock", a.h.e1, b.h.e1, fmt_i)
        DIFF_FIELD("header.emptyBlock2", "header.emptyBlock", a.h.e2, b.h.e2, fmt_i)
        DIFF_FIELD("header.emptyBlock3", "header.emptyBlock", a.h.e3, b.h.e3, fmt_i)
        DIFF_FIELD("header.emptyBlock4", "header.emptyBlock", a.h.e4, b.h.e4, fmt_i)
        }
        DIFF_FIELD("header.keyLabelPresent", "header.keyLabelPresent", a.h.keyLabelPresent, b.h.keyLabelPresent, fmt_u)
        DIFF_FIELD("header.firstBlockKeyLabel", "header.firstBlockKeyLabel", a.h.firstBlockKeyLabel, b.h.firstBlockKeyLabel, fmt_u)
        DIFF_FIELD("header.fourCharPresent", "header.fourCharPresent", a.h.fourChar, b.h.fourChar, fmt_u)
        DIFF_FIELD("header.nbEvents", "header.nbEvents", a.h.nbEvents, b.h.nbEvents, fmt_u)
        DIFF_FIELD("header.eventsTime.size", "header.eventsTime", a.h.evTimes.size(), b.h.evTimes.size(), fmt_u)
        for (size_t i = 0; i < a.h.evTimes.size(); ++i)
            DIFF_FIELD("header.eventsTime[" + tos(i) + "]", "header.eventsTime", a.h.evTimes[i], b.h.evTimes[i], hex32)
        DIFF_FIELD("header.eventsDisplay.size", "header.eventsDisplay", a.h.evDisp.size(), b.h.evDisp.size(), fmt_u)
        for (size_t i = 0; i < a.h.evDisp.size(); ++i)
            DIFF_FIELD("header.eventsDisplay[" + tos(i) + "]", "header.eventsDisplay", a.h.evDisp[i], b.h.evDisp[i], fmt_u)
        DIFF_FIELD("header.eventsLabel.size", "header.eventsLabel", a.h.evLabels.size(), b.h.evLabels.size(), fmt_u)
        for (size_t i = 0; i < a.h.evLabels.size(); ++i)
            DIFF_FIELD("header.eventsLabel[" + tos(i) + "]", "header.eventsLabel", a.h.evLabels[i], b.h.evLabels[i], q)
    }
    if (!o.skip_params) {
        if (!o.skip_prologue) {
            DIFF_FIELD("parameters.parametersStart", "parameters.prologue", a.pStart, b.pStart, fmt_u)
            DIFF_FIELD("parameters.checksum", "parameters.prologue", a.pChecksum, b.pChecksum, fmt_u)
            DIFF_FIELD("parameters.nbParamBlock", "parameters.prologue", a.pBlocks, b.pBlocks, fmt_u)
            DIFF_FIELD("parameters.processorType", "parameters.prologue", a.pProc, b.pProc, fmt_u)
        }
        DIFF_FIELD("parameters.nbGroups", "parameters.nbGroups", a.groups.size(), b.groups.size(), fmt_u)
        for (size_t g = 0; g < a.groups.size(); ++g) {
            const SnapGroup &ga = a.groups[g], &gb = b.groups[g];
            if (!o.upper_names && !o.skip_data_start && ga.name == gb.name && ga.desc == gb.desc && ga.locked == gb.locked && ga.params == gb.params) continue;
            std::string gp = "group[" + tos(g) + "]";
            std::string gan = o.upper_names ? upper(ga.name) : ga.name, gbn = o.upper_names ? upper(gb.name) : gb.name;
            DIFF_FIELD(gp + ".name", "group.name", gan, gbn, q)
            gp = "group " + gan;
            DIFF_FIELD(gp + ".description", "group.description", ga.desc, gb.desc, q)
            DIFF_FIELD(gp + ".locked", "group.lock", ga.locked, gb.locked, fmt_b)
            DIFF_FIELD(gp + ".nbParameters", "group.nbParameters", ga.params.size(), gb.params.size(), fmt_u)
            for (size_t p = 0; p < ga.params.size(); ++p) {
                if (o.skip_data_start && gan == "POINT" && upper(ga.params[p].name) == "DATA_START" &&
                    upper(gb.params[p].name) == "DATA_START") {
                    SnapParam x = ga.params[p], y = gb.params[p];
                    x.ints.clear(); y.ints.clear();
                    // still compare everything except the value
                    std::string f2, d = diff_param(x, y, o.upper_names, &f2);
                    if (d.size() && d.compare(0, 7, "nvalues") != 0) { if (facet) *facet = "param." + f2; return gp + ":DATA_START." + d; }
                    continue;
                }
                std::string f2;
                std::string d = diff_param(ga.params[p], gb.params[p], o.upper_names, &f2);
                if (!d.empty()) {
                    if (facet) *facet = "param." + f2;
                    return gp + ":" + (o.upper_names ? upper(ga.params[p].name) : ga.params[p].name) + "(#" + tos(p) + ")." + d;
                }
            }
        }
    }
    if (!o.skip_frames) {
        DIFF_FIELD("data.nbFrames", "data.nbFrames", a.frames.size(), b.frames.size(), fmt_u)
        for (size_t f = 0; f < a.frames.size(); ++f) {
            std::string f2;
            std::string d = diff_frame(a.frames[f], b.frames[f], &f2, o.ignore_empty_subframes);
            if (!d.empty()) { if (facet) *facet = f2; return "frame[" + tos(f) + "]." + d; }
        }
    }
    return "";
}

namespace {
struct Hasher {
    uint64_t h = 0xcbf29ce484222325ULL;
    inline void u(uint64_t v) { h = (h ^ v) * 0x9e3779b97f4a7c15ULL; h ^= h >> 29; }
    void s(const std::string &x) {
        u(x.size());
        size_t i = 0;
        for (; i + 8 <= x.size(); i += 8) { uint64_t w; __builtin_memcpy(&w, x.data() + i, 8); u(w); }
        if (i < x.size()) { uint64_t w = 0; __builtin_memcpy(&w, x.data() + i, x.size() - i); u(w); }
    }
};
} // namespace

uint64_t hash_snapshot(const Snapshot &s) {
    Hasher H;
    const SnapHeader &h = s.h;
    for (uint64_t v : {h.zerosBefore, h.paramAddr, h.checksum, h.nbPoints, h.nbAnalogsMeas, h.nbAnalogs, h.first, h.last,
                       h.nbFrames, h.gap, static_cast<uint64_t>(h.scale), h.dataStart, h.nbAnalogByFrame,
                       static_cast<uint64_t>(h.rate), static_cast<uint64_t>(h.e1), static_cast<uint64_t>(h.e2),
                       static_cast<uint64_t>(h.e3), static_cast<uint64_t>(h.e4), h.keyLabelPresent, h.firstBlockKeyLabel,
                       h.fourChar, h.nbEvents})
        H.u(v);
    for (auto v : h.evTimes) H.u(v);
    for (auto v : h.evDisp) H.u(v);
    for (auto &v : h.evLabels) H.s(v);
    H.u(s.pStart); H.u(s.pChecksum); H.u(s.pBlocks); H.u(s.pProc);
    H.u(s.groups.size());
    for (auto &g : s.groups) {
        H.s(g.name); H.s(g.desc); H.u(g.locked); H.u(g.params.size());
        for (auto &p : g.params) {
            H.s(p.name); H.s(p.desc); H.u(p.locked); H.u(static_cast<uint64_t>(p.type));
            H.u(p.dims.size()); for (auto d : p.dims) H.u(d);
            H.u(p.ints.size()); for (auto v : p.ints) H.u(static_cast<uint64_t>(v));
            H.u(p.floats.size()); for (auto v : p.floats) H.u(v);
            H.u(p.strs.size()); for (auto &v : p.strs) H.s(v);
        }
    }
    H.u(s.frames.size());
    for (auto &f : s.frames) {
        H.u(f.pts.size());
        for (auto &p : f.pts) { H.s(p.name); H.u(p.x); H.u(p.y); H.u(p.z); H.u(p.r); }
        H.u(f.subs.size());
        for (auto &sf : f.subs) { H.u(sf.size()); for (auto &c : sf) { H.s(c.name); H.u(c.v); } }
    }
    return H.h;
}

std::string dump_snapshot(const Snapshot &s, size_t max_frames) {
    std::ostringstream o;
    const SnapHeader &h = s.h;
    o << "header: points=" << h.nbPoints << " analogMeas=" << h.nbAnalogsMeas << " analogs=" << h.nbAnalogs
      << " first=" << h.first << " last=" << h.last << " frames=" << h.nbFrames << " gap=" << h.gap
      << " scale=" << h.scale << " dataStart=" << h.dataStart << " subframes=" << h.nbAnalogByFrame
      << " rate=" << hex32(h.rate) << "(" << bits2f(h.rate) << ") events=" << h.nbEvents << "\n";
    o << "prologue: start=" << s.pStart << " blocks=" << s.pBlocks << " proc=" << s.pProc << "\n";
    for (auto &g : s.groups) {
        o << "group " << q(g.name) << (g.locked ? " locked" : "") << " desc=" << q(g.desc) << "\n";
        for (auto &p : g.params) {
            o << "  " << q(p.name) << (p.locked ? " locked" : "") << " type=" << p.type << " dims=[";
            for (auto d : p.dims) o << d << ",";
            o << "] n=" << (p.ints.size() + p.floats.size() + p.strs.size());
            size_t shown = 0;
            for (auto v : p.ints) { if (shown++ >= 6) break; o << " " << v; }
            for (auto v : p.floats) { if (shown++ >= 6) break; o << " " << hex32(v); }
            for (auto &v : p.strs) { if (shown++ >= 6) break; o << " " << q(v); }
            if (!p.desc.empty()) o << " desc=" << q(p.desc.substr(0, 24)) << (p.desc.size() > 24 ? "..." : "");
            o << "\n";
        }
    }
    o << "frames: " << s.frames.size() << "\n";
    for (size_t f = 0; f < s.frames.size() && f < max_frames; ++f) {
        o << "  frame " << f << ": " << s.frames[f].pts.size() << " points, " << s.frames[f].subs.size() << " subframes";
        if (!s.frames[f].subs.empty()) o << " x " << s.frames[f].subs[0].size() << " channels";
        o << "\n";
    }
    return o.str();
}

} // namespace sim
