#include "simsched.h"
#include "prng.h"

#include <condition_variable>
#include <memory>
#include <mutex>
#include <thread>

// ThreadSanitizer dynamic annotations (present in the TSan runtime; absent otherwise)
#ifdef SIM_TSAN
extern "C" {
void AnnotateIgnoreSyncBegin(const char *f, int l);
void AnnotateIgnoreSyncEnd(const char *f, int l);
void AnnotateIgnoreReadsBegin(const char *f, int l);
void AnnotateIgnoreReadsEnd(const char *f, int l);
void AnnotateIgnoreWritesBegin(const char *f, int l);
void AnnotateIgnoreWritesEnd(const char *f, int l);
}
#endif

namespace sim {

static thread_local int t_harness_depth = 0;
bool in_harness_scope() { return t_harness_depth > 0; }

HarnessScope::HarnessScope() {
    ++t_harness_depth;
#ifdef SIM_TSAN
    AnnotateIgnoreSyncBegin(__FILE__, __LINE__);
    AnnotateIgnoreReadsBegin(__FILE__, __LINE__);
    AnnotateIgnoreWritesBegin(__FILE__, __LINE__);
#endif
}
HarnessScope::~HarnessScope() {
    --t_harness_depth;
#ifdef SIM_TSAN
    AnnotateIgnoreWritesEnd(__FILE__, __LINE__);
    AnnotateIgnoreReadsEnd(__FILE__, __LINE__);
    AnnotateIgnoreSyncEnd(__FILE__, __LINE__);
#endif
}

namespace {

struct Session {
    std::mutex mu;
    std::unique_ptr<std::condition_variable[]> cvs; // one per thread: a hand-over wakes exactly the thread that was picked
    int n = 0;
    int turn = -1;                 // which thread may run
    std::vector<int> parkedSite;   // site at which each thread is parked (-1: not started / finished)
    std::vector<bool> done;
    Rng rng{1};
    SchedConfig cfg;
    SchedResult res;
    std::vector<int> prio;         // PCT
    std::vector<uint64_t> changeAt;
    int burstLeft = 0;
    size_t replayPos = 0;
};

Session *g_session = nullptr;
thread_local int t_self = -1;
thread_local unsigned t_alloc_count = 0;

int choose(Session &S, int yielder) {
    std::vector<int> runnable;
    for (int i = 0; i < S.n; ++i) if (!S.done[static_cast<size_t>(i)]) runnable.push_back(i);
    if (runnable.empty()) return -1;
    int pick;
    if (S.replayPos < S.cfg.replay.size()) {
        pick = S.cfg.replay[S.replayPos++];
        bool ok = false;
        for (int r : runnable) if (r == pick) ok = true;
        if (!ok) pick = runnable[0];
    } else if (S.res.decisions >= S.cfg.max_decisions) {
        pick = runnable[0];
    } else if (S.cfg.policy == 1) {
        for (auto c : S.changeAt)
            if (c == S.res.decisions && yielder >= 0) { // demote the running thread
                int lowest = 0;
                for (int p : S.prio) if (p < lowest) lowest = p;
                S.prio[static_cast<size_t>(yielder)] = lowest - 1;
            }
        pick = runnable[0];
        for (int r : runnable) if (S.prio[static_cast<size_t>(r)] > S.prio[static_cast<size_t>(pick)]) pick = r;
    } else if (S.cfg.policy == 2) {
        bool yielderRunnable = yielder >= 0 && !S.done[static_cast<size_t>(yielder)];
        if (yielderRunnable && S.burstLeft > 0) { --S.burstLeft; pick = yielder; }
        else { pick = runnable[S.rng.below(runnable.size())]; S.burstLeft = static_cast<int>(S.rng.below(200)); }
    } else {
        pick = runnable[S.rng.below(runnable.size())];
    }
    S.res.choices.push_back(static_cast<uint8_t>(pick));
    S.res.decisions++;
    if (pick != yielder) S.res.switches++;
    S.res.schedule_hash = mix(S.res.schedule_hash, static_cast<uint64_t>(pick) + 1);
    return pick;
}

} // namespace

bool in_scheduled_thread() { return t_self >= 0 && g_session != nullptr; }

void alloc_yield_hook() {
    if (t_self < 0 || !g_session || t_harness_depth > 0) return;
    unsigned k = g_session->cfg.alloc_period;
    if (!k) return;
    if (++t_alloc_count % k) return;
    yield_point(Y_ALLOC);
}
int sched_self() { return t_self; }

void yield_point(int site) {
    if (t_self < 0 || !g_session) return;
    HarnessScope hs;
    Session &S = *g_session;
    std::unique_lock<std::mutex> lk(S.mu);
    int me = t_self;
    S.parkedSite[static_cast<size_t>(me)] = site;
    int pick = choose(S, me);
    if (pick >= 0 && pick != me) {
        int ps = S.parkedSite[static_cast<size_t>(pick)];
        if (ps >= 0 && ps < Y_NSITES && site >= 0 && site < Y_NSITES) S.res.site_pairs[site][ps]++;
    }
    S.turn = pick;
    if (pick == me) return; // the same thread goes on: nobody to wake, nothing to wait for
    if (pick >= 0) S.cvs[static_cast<size_t>(pick)].notify_one();
    S.cvs[static_cast<size_t>(me)].wait(lk, [&] { return S.turn == me; });
}

SchedResult run_scheduled(const std::vector<std::function<void()>> &bodies, const SchedConfig &cfg) {
    Session S;
    S.n = static_cast<int>(bodies.size());
    S.cvs.reset(new std::condition_variable[bodies.size() ? bodies.size() : 1]);
    S.cfg = cfg;
    S.rng.reseed(cfg.seed);
    S.parkedSite.assign(bodies.size(), Y_STEP);
    S.done.assign(bodies.size(), false);
    S.prio.resize(bodies.size());
    for (size_t i = 0; i < bodies.size(); ++i) S.prio[i] = static_cast<int>(S.rng.below(1000)) + 10;
    for (int d = 0; d < cfg.pct_depth; ++d) S.changeAt.push_back(S.rng.below(4000));
    g_session = &S;
    std::vector<std::thread> th;
    {
        std::unique_lock<std::mutex> lk(S.mu);
        S.turn = -2; // nobody yet
    }
    for (size_t i = 0; i < bodies.size(); ++i) {
        th.emplace_back([&, i] {
            t_self = static_cast<int>(i);
            {
                HarnessScope hs;
                std::unique_lock<std::mutex> lk(S.mu);
                S.cvs[i].wait(lk, [&] { return S.turn == static_cast<int>(i); });
            }
            bodies[i]();
            {
                HarnessScope hs;
                std::unique_lock<std::mutex> lk(S.mu);
                S.done[i] = true;
                S.parkedSite[i] = -1;
                int pick = choose(S, -1);
                S.turn = pick;
                if (pick >= 0) S.cvs[static_cast<size_t>(pick)].notify_one();
            }
            t_self = -1;
        });
    }
    {
        HarnessScope hs;
        std::unique_lock<std::mutex> lk(S.mu);
        int pick = choose(S, -1);
        S.turn = pick;
        if (pick >= 0) S.cvs[static_cast<size_t>(pick)].notify_one();
    }
    for (auto &t : th) t.join();
    g_session = nullptr;
    return S.res;
}

} // namespace sim
