#include "world.h"
#include "prng.h"
#include "refc3d.h"
#include "simsched.h"
#include "seams.h"
#include "ezc3d.h"

#include <algorithm>
#include <cmath>
#include <cstdio>
#include <cstring>
#include <iostream>
#include <sstream>

namespace sim {

typedef ezc3d::ParametersNS::GroupNS::Parameter EParam;
typedef ezc3d::DataNS::Frame EFrame;
typedef ezc3d::DataNS::Points3dNS::Points EPoints;
typedef ezc3d::DataNS::Points3dNS::Point EPoint;
typedef ezc3d::DataNS::AnalogsNS::Analogs EAnalogs;
typedef ezc3d::DataNS::AnalogsNS::SubFrame ESub;
typedef ezc3d::DataNS::AnalogsNS::Channel EChan;

std::string classify_current_exception(std::string *what) {
    try { throw; }
    catch (const ReadBudgetExceeded &e) { if (what) *what = e.what; return "budget_read"; }
    catch (const HeapBudgetExceeded &e) { if (what) *what = e.what(); return "budget_heap"; }
    catch (const std::ios_base::failure &e) { if (what) *what = e.what(); return "ios_failure"; }
    catch (const std::invalid_argument &e) { if (what) *what = e.what(); return "invalid_argument"; }
    catch (const std::out_of_range &e) { if (what) *what = e.what(); return "out_of_range"; }
    catch (const std::length_error &e) { if (what) *what = e.what(); return "length_error"; }
    catch (const std::range_error &e) { if (what) *what = e.what(); return "range_error"; }
    catch (const std::logic_error &e) { if (what) *what = e.what(); return "logic_error"; }
    catch (const std::runtime_error &e) { if (what) *what = e.what(); return "runtime_error"; }
    catch (const std::bad_alloc &e) { if (what) *what = e.what(); return "bad_alloc"; }
    catch (const std::exception &e) { if (what) *what = e.what(); return "std_exception"; }
    catch (...) { if (what) *what = "?"; return "non_std"; }
}

std::vector<uint8_t> read_real_file(const std::string &path) {
    std::vector<uint8_t> out;
    FILE *f = std::fopen(path.c_str(), "rb");
    if (!f) return out;
    unsigned char buf[65536];
    size_t n;
    while ((n = std::fread(buf, 1, sizeof buf, f)) > 0) out.insert(out.end(), buf, buf + n);
    std::fclose(f);
    return out;
}

namespace {

template <class T> std::string tos(const T &v) { std::ostringstream o; o << v; return o.str(); }

bool get_int(const Snapshot &s, const char *g, const char *p, int64_t &v) {
    const SnapParam *sp = s.param(g, p);
    if (!sp || sp->type != 2 || sp->ints.empty()) return false;
    v = sp->ints[0];
    return true;
}
bool get_float(const Snapshot &s, const char *g, const char *p, float &v) {
    const SnapParam *sp = s.param(g, p);
    if (!sp || sp->type != 4 || sp->floats.empty()) return false;
    v = bits2f(sp->floats[0]);
    return true;
}
const std::vector<std::string> *get_strs(const Snapshot &s, const char *g, const char *p) {
    const SnapParam *sp = s.param(g, p);
    if (!sp || sp->type != -1) return nullptr;
    return &sp->strs;
}

uint64_t bucket(uint64_t n, std::initializer_list<uint64_t> edges) {
    uint64_t b = 0;
    for (uint64_t e : edges) { if (n >= e) ++b; }
    return b;
}

} // namespace

// ---------------------------------------------------------------------------------------
// C05: header, POINT/ANALOG parameters and stored data agree.  "" if they do.
std::string check_c05(const Snapshot &s, bool i5, std::string *facet, size_t *frameIdx) {
    size_t curFrame = SIZE_MAX;
    auto fail = [&](const char *f, const std::string &d) { if (facet) *facet = f; if (frameIdx) *frameIdx = curFrame; return d; };
    int64_t used = 0, frames = 0, aused = 0;
    float prate = 0;
    bool hasUsed = get_int(s, "POINT", "USED", used), hasFrames = get_int(s, "POINT", "FRAMES", frames);
    bool hasRate = get_float(s, "POINT", "RATE", prate);
    bool hasAUsed = get_int(s, "ANALOG", "USED", aused);
    // I1
    if (hasUsed && static_cast<int64_t>(s.h.nbPoints) != used)
        return fail("I1.header-vs-USED", "header points " + tos(s.h.nbPoints) + " != POINT:USED " + tos(used));
    for (size_t f = 0; f < s.frames.size(); ++f) {
        if (s.frames[f].empty()) continue;
        curFrame = f;
        if (hasUsed && static_cast<int64_t>(s.frames[f].pts.size()) != used)
            return fail("I1.frame-vs-USED", "frame " + tos(f) + " has " + tos(s.frames[f].pts.size()) + " points, POINT:USED " + tos(used));
    }
    curFrame = SIZE_MAX;
    // I2
    if (hasFrames && static_cast<int64_t>(s.frames.size()) != frames)
        return fail("I2.FRAMES-vs-data", "POINT:FRAMES " + tos(frames) + " != stored frames " + tos(s.frames.size()));
    if (s.h.nbFrames != s.frames.size())
        return fail("I2.header-vs-data", "header frames " + tos(s.h.nbFrames) + " != stored frames " + tos(s.frames.size()));
    // I3 (guard: some channel declared or some frame carries a sub-frame)
    bool anySub = false;
    for (auto &f : s.frames) if (!f.subs.empty()) { anySub = true; break; }
    if ((hasAUsed && aused >= 1) || anySub) {
        for (size_t f = 0; f < s.frames.size(); ++f) {
            if (s.frames[f].empty()) continue;
            curFrame = f;
            if (s.frames[f].subs.size() != s.h.nbAnalogByFrame)
                return fail("I3.subframes", "frame " + tos(f) + " has " + tos(s.frames[f].subs.size()) + " sub-frames, header says " + tos(s.h.nbAnalogByFrame));
        }
        curFrame = SIZE_MAX;
        if (s.h.nbAnalogByFrame >= 1) {
            if (hasAUsed && static_cast<int64_t>(s.h.nbAnalogs) != aused)
                return fail("I3.header-vs-USED", "header channels " + tos(s.h.nbAnalogs) + " != ANALOG:USED " + tos(aused));
            if (s.h.nbAnalogsMeas != s.h.nbAnalogs * s.h.nbAnalogByFrame)
                return fail("I3.samples", "header analog samples per frame " + tos(s.h.nbAnalogsMeas) + " != channels x sub-frames");
            for (size_t f = 0; f < s.frames.size(); ++f)
                for (size_t k = 0; k < s.frames[f].subs.size(); ++k)
                    if (hasAUsed && static_cast<int64_t>(s.frames[f].subs[k].size()) != aused)
                        return fail("I3.channels", "frame " + tos(f) + " sub-frame " + tos(k) + " has " + tos(s.frames[f].subs[k].size()) + " channels, ANALOG:USED " + tos(aused));
        }
    }
    // I4
    if (hasRate) {
        float hr = bits2f(s.h.rate);
        if (!(std::fabs(static_cast<double>(hr) - static_cast<double>(prate)) <= 1e-4) && !(std::isnan(hr) && std::isnan(prate)))
            return fail("I4.rate", "header rate " + tos(hr) + " != POINT:RATE " + tos(prate));
    }
    // I5
    if (i5) {
        static const char *pl[] = {"LABELS", "DESCRIPTIONS", "UNITS"};
        for (const char *n : pl) {
            const SnapParam *sp = s.param("POINT", n);
            if (!sp || !hasUsed) continue;
            size_t cnt = sp->type == -1 ? sp->strs.size() : (sp->type == 4 ? sp->floats.size() : sp->ints.size());
            if (static_cast<int64_t>(cnt) != used)
                return fail("I5.point-list-size", std::string("POINT:") + n + " has " + tos(cnt) + " entries for " + tos(used) + " points");
        }
        static const char *al[] = {"LABELS", "DESCRIPTIONS", "SCALE", "OFFSET", "UNITS"};
        for (const char *n : al) {
            const SnapParam *sp = s.param("ANALOG", n);
            if (!sp || !hasAUsed) continue;
            size_t cnt = sp->type == -1 ? sp->strs.size() : (sp->type == 4 ? sp->floats.size() : sp->ints.size());
            if (static_cast<int64_t>(cnt) != aused)
                return fail("I5.analog-list-size", std::string("ANALOG:") + n + " has " + tos(cnt) + " entries for " + tos(aused) + " channels");
        }
        const std::vector<std::string> *L = get_strs(s, "POINT", "LABELS");
        const std::vector<std::string> *AL = get_strs(s, "ANALOG", "LABELS");
        for (size_t f = 0; f < s.frames.size(); ++f) {
            if (s.frames[f].empty()) continue;
            if (L)
                for (size_t i = 0; i < s.frames[f].pts.size() && i < L->size(); ++i)
                    if (s.frames[f].pts[i].name != (*L)[i])
                        return fail("I5.point-order", "frame " + tos(f) + " point " + tos(i) + " is '" + s.frames[f].pts[i].name + "', POINT:LABELS says '" + (*L)[i] + "'");
            if (AL)
                for (size_t k = 0; k < s.frames[f].subs.size(); ++k)
                    for (size_t c = 0; c < s.frames[f].subs[k].size() && c < AL->size(); ++c)
                        if (s.frames[f].subs[k][c].name != (*AL)[c])
                            return fail("I5.channel-order", "frame " + tos(f) + " channel " + tos(c) + " is '" + s.frames[f].subs[k][c].name + "', ANALOG:LABELS says '" + (*AL)[c] + "'");
        }
    }
    return "";
}

namespace {

enum Expect { EX_DONT_CARE = 0, EX_MUST_ACCEPT = 1, EX_MUST_REFUSE = 2 };
struct Expectation {
    int kind = EX_DONT_CARE;
    std::set<std::string> classes; // acceptable exception classes when MUST_REFUSE
    std::string why;
};

// C07, frame(): documented preconditions, three-valued
Expectation expect_frame(const Snapshot &b, const SnapFrame &fs) {
    Expectation e;
    int64_t used = 0, aused = 0;
    float prate = 0, arate = 0;
    if (!get_int(b, "POINT", "USED", used) || !get_int(b, "ANALOG", "USED", aused) || !get_float(b, "POINT", "RATE", prate) ||
        !get_float(b, "ANALOG", "RATE", arate))
        return e; // state outside the documented shape (e.g. Optotrak empty ANALOG group)
    const std::vector<std::string> *L = get_strs(b, "POINT", "LABELS");
    const std::vector<std::string> *AL = get_strs(b, "ANALOG", "LABELS");
    if (!L || !AL) return e;
    size_t nP = fs.pts.size(), nS = fs.subs.size(), nC = nS ? fs.subs[0].size() : 0;
    if (used != 0 && static_cast<int64_t>(nP) != used) { e.classes.insert("runtime_error"); e.why += "point count != POINT:USED; "; }
    if (nP > 0 && prate == 0.0f) { e.classes.insert("runtime_error"); e.why += "points while POINT:RATE is 0; "; }
    if (nS > 0 && nC > 0 && arate == 0.0f) { e.classes.insert("runtime_error"); e.why += "analogs while ANALOG:RATE is 0; "; }
    if (nS > 0 && aused != 0 && static_cast<int64_t>(nC) != aused) { e.classes.insert("runtime_error"); e.why += "channel count != ANALOG:USED; "; }
    for (auto &lab : *L) {
        bool found = false;
        for (auto &p : fs.pts) if (p.name == lab) { found = true; break; }
        if (!found) { e.classes.insert("invalid_argument"); e.why += "label '" + lab + "' missing; "; break; }
    }
    if (!e.classes.empty()) { e.kind = EX_MUST_REFUSE; return e; }
    // must-accept: names in LABELS order, counts, rates, ratio
    bool ok = static_cast<int64_t>(nP) == used && L->size() == static_cast<size_t>(used);
    for (size_t i = 0; ok && i < nP; ++i) ok = fs.pts[i].name == (*L)[i];
    if (ok && nP > 0 && prate == 0.0f) ok = false;
    if (ok) {
        if (nS == 0) {
            ok = aused == 0;
            // data set already carries sub-frames: a frame without them deviates
            for (auto &f : b.frames) if (!f.subs.empty()) ok = false;
            if (ok && b.h.nbAnalogByFrame != 0 && aused != 0) ok = false;
        } else {
            ok = static_cast<int64_t>(nC) == aused && aused >= 1 && AL->size() == static_cast<size_t>(aused) && arate != 0.0f;
            for (size_t k = 0; ok && k < nS; ++k) {
                ok = fs.subs[k].size() == nC;
                for (size_t c = 0; ok && c < nC; ++c) ok = fs.subs[k][c].name == (*AL)[c];
            }
            if (ok) {
                size_t expectSub = 0;
                for (auto &f : b.frames) if (!f.subs.empty()) { expectSub = f.subs.size(); break; }
                if (!expectSub) {
                    if (prate == 0.0f) expectSub = 1;
                    else {
                        double ratio = static_cast<double>(arate) / static_cast<double>(prate);
                        if (ratio >= 1 && ratio == std::floor(ratio) && ratio < 1000) expectSub = static_cast<size_t>(ratio);
                    }
                }
                ok = expectSub != 0 && nS == expectSub;
            }
        }
    }
    // an entirely empty frame on an object that declares nothing is not "a frame that matches the declared names":
    if (ok && nP == 0 && nS == 0) ok = false;
    if (ok) e.kind = EX_MUST_ACCEPT;
    return e;
}

Expectation expect_col_point(const Snapshot &b, const std::vector<SnapFrame> &fr) {
    Expectation e;
    const std::vector<std::string> *L = get_strs(b, "POINT", "LABELS");
    if (!L) return e;
    if (fr.size() != b.frames.size()) { e.classes.insert("invalid_argument"); e.why += "frame count differs; "; }
    if (fr.empty() || fr[0].pts.empty()) { e.classes.insert("invalid_argument"); e.why += "nothing supplied; "; }
    if (!fr.empty())
        for (auto &p : fr[0].pts) {
            bool dup = false;
            for (auto &l : *L) if (l == p.name) dup = true;
            if (dup) { e.classes.insert("invalid_argument"); e.why += "name exists; "; break; }
        }
    if (!e.classes.empty()) { e.kind = EX_MUST_REFUSE; return e; }
    bool ok = !fr.empty();
    for (size_t f = 0; ok && f < fr.size(); ++f) {
        ok = fr[f].pts.size() == fr[0].pts.size();
        for (size_t i = 0; ok && i < fr[f].pts.size(); ++i) ok = fr[f].pts[i].name == fr[0].pts[i].name;
    }
    // new names unique among themselves and against names already present in stored frames
    for (size_t i = 0; ok && i < fr[0].pts.size(); ++i) {
        for (size_t j = i + 1; ok && j < fr[0].pts.size(); ++j) ok = fr[0].pts[i].name != fr[0].pts[j].name;
        for (auto &sf : b.frames) for (auto &p : sf.pts) if (p.name == fr[0].pts[i].name) ok = false;
    }
    // every stored frame must be filled (a gap frame has no declared shape to extend)
    for (auto &sf : b.frames) if (ok && sf.pts.size() != b.frames[0].pts.size()) ok = false;
    if (ok) e.kind = EX_MUST_ACCEPT;
    return e;
}

Expectation expect_col_analog(const Snapshot &b, const std::vector<SnapFrame> &fr) {
    Expectation e;
    const std::vector<std::string> *AL = get_strs(b, "ANALOG", "LABELS");
    if (!AL) return e;
    if (fr.size() != b.frames.size()) { e.classes.insert("invalid_argument"); e.why += "frame count differs; "; }
    if (fr.empty()) { e.classes.insert("invalid_argument"); e.why += "nothing supplied; "; }
    if (!fr.empty()) {
        if (fr[0].subs.size() != b.h.nbAnalogByFrame) { e.classes.insert("invalid_argument"); e.why += "sub-frame count differs; "; }
        if (fr[0].subs.empty() || fr[0].subs[0].empty()) { e.classes.insert("invalid_argument"); e.why += "nothing supplied; "; }
        else
            for (auto &c : fr[0].subs[0]) {
                bool dup = false;
                for (auto &l : *AL) if (l == c.name) dup = true;
                if (dup) { e.classes.insert("invalid_argument"); e.why += "name exists; "; break; }
            }
    }
    if (!e.classes.empty()) {
        // stored gap frames (no sub-frames) make the call fail on its own, with whatever class comes first
        for (auto &sf : b.frames) if (sf.subs.size() != b.h.nbAnalogByFrame) { e.classes.insert("out_of_range"); break; }
        e.kind = EX_MUST_REFUSE; return e;
    }
    bool ok = !fr.empty() && !fr[0].subs.empty();
    size_t nC = ok ? fr[0].subs[0].size() : 0;
    for (size_t f = 0; ok && f < fr.size(); ++f) {
        ok = fr[f].subs.size() == fr[0].subs.size();
        for (size_t k = 0; ok && k < fr[f].subs.size(); ++k) {
            ok = fr[f].subs[k].size() == nC;
            for (size_t c = 0; ok && c < nC; ++c) ok = fr[f].subs[k][c].name == fr[0].subs[0][c].name;
        }
    }
    for (size_t i = 0; ok && i < nC; ++i) {
        for (size_t j = i + 1; ok && j < nC; ++j) ok = fr[0].subs[0][i].name != fr[0].subs[0][j].name;
        for (auto &sf : b.frames) for (auto &sub : sf.subs) for (auto &c : sub) if (c.name == fr[0].subs[0][i].name) ok = false;
    }
    for (auto &sf : b.frames) if (ok && sf.subs.size() != b.h.nbAnalogByFrame) ok = false;
    if (ok) e.kind = EX_MUST_ACCEPT;
    return e;
}

struct CallerFrame {
    EPoints pts;
    EAnalogs an;
    EFrame fr;
    SnapFrame expect; // what the caller assembled, from the raw values (not read back through the library)
    bool built = false;
};

// one frame carries exactly the declared points and channels
bool frame_complete(const Snapshot &s, const SnapFrame &f, int64_t used, int64_t aused, const std::vector<std::string> &L, const std::vector<std::string> &AL) {
    if (static_cast<int64_t>(f.pts.size()) != used || L.size() != f.pts.size()) return false;
    for (size_t i = 0; i < f.pts.size(); ++i) if (f.pts[i].name != L[i]) return false;
    if (aused == 0) { for (auto &sub : f.subs) if (!sub.empty()) return false; return true; }
    if (f.subs.empty() || f.subs.size() != s.h.nbAnalogByFrame || AL.size() != static_cast<size_t>(aused)) return false;
    for (auto &sub : f.subs) {
        if (static_cast<int64_t>(sub.size()) != aused) return false;
        for (size_t c = 0; c < sub.size(); ++c) if (sub[c].name != AL[c]) return false;
    }
    return true;
}
// every frame carries exactly the declared points and channels ("complete frames"), and the shape fits the format's
// 8/16-bit header and dimension fields (beyond that is C17's subject, not content "within the format's capacity")
// bytes the parameter section of this content needs (records only; estimate within a few bytes per record)
static uint64_t param_section_bytes(const Snapshot &s) {
    uint64_t n = 4;
    for (const SnapGroup &g : s.groups) {
        if (g.name.empty() && g.params.empty()) continue;
        n += 5 + g.name.size() + g.desc.size();
        for (const SnapParam &p : g.params) {
            uint64_t el = p.type == 4 ? 4 : p.type == 2 ? 2 : 1, cnt = 1;
            for (uint64_t d : p.dims) cnt *= d;
            n += 7 + p.name.size() + p.dims.size() + el * cnt + p.desc.size();
        }
    }
    return n;
}

// capacity of the format: the section's length is one byte of 512-byte blocks. Beyond it (and close to it: the estimate is
// not exact) the content is C17's subject (item blocks255), not C01's / C03's / C04's
static bool within_param_capacity(const Snapshot &s) { return param_section_bytes(s) <= 250 * 512; }

bool frames_complete(const Snapshot &s) {
    int64_t used = 0, aused = 0;
    if (!get_int(s, "POINT", "USED", used) || !get_int(s, "ANALOG", "USED", aused)) return false;
    if (used > 255 || aused > 255 || s.h.nbAnalogByFrame > 65535 || static_cast<uint64_t>(aused) * s.h.nbAnalogByFrame > 65535 || s.frames.size() > 32767) return false;
    const std::vector<std::string> *L = get_strs(s, "POINT", "LABELS");
    const std::vector<std::string> *AL = get_strs(s, "ANALOG", "LABELS");
    if (!L || !AL) return false;
    for (auto &f : s.frames) if (!frame_complete(s, f, used, aused, *L, *AL)) return false;
    if (s.frames.empty()) return true;
    // an object whose frames carry neither points nor samples has no frame content the format can hold
    if (used == 0 && aused == 0) return false;
    return true;
}

// "header.x: A != B" -> "header.x/A->B" for small values (keeps known-finding keys specific)
std::string facet_with_values(const std::string &facet, const std::string &d) {
    if (facet.compare(0, 7, "header.") != 0) return facet;
    size_t c = d.find(": "), n = d.find(" != ");
    if (c == std::string::npos || n == std::string::npos) return facet;
    auto norm = [](const std::string &v) {
        if (v == "18446744073709551615") return std::string("max");
        if (v.size() > 4 || v.find_first_not_of("0123456789-") != std::string::npos) return std::string("x");
        return v;
    };
    return facet + "/" + norm(d.substr(c + 2, n - c - 2)) + "->" + norm(d.substr(n + 4));
}

struct Saved {
    std::string path;
    Snapshot snap;       // content of the saving object at save time
    std::vector<uint8_t> image;
    int writer_gen = 0;  // generation of the object that wrote it
    bool writer_pristine = false; // writer was loaded and not modified before saving
    int source = -1;     // index of the Saved the writer was loaded from (-1 none)
    bool premise_broken = false; // a frame outside the documented shapes had been accepted before this save
    std::string refusedTaint;
    bool complete = false;       // every frame carried exactly the declared points and channels
    bool api_lineage = true;     // the content originates from API construction (possibly through restarts), not from an external file
    std::vector<SnapFrame> model;
};

class World {
public:
    World(const Plan &p, const ExecCfg &c, RunResult &r) : plan(p), cfg(c), res(r) { slots.resize(4); }
    void run();

private:
    const Plan &plan;
    const ExecCfg &cfg;
    RunResult &res;
    std::unique_ptr<ezc3d::c3d> obj;
    Snapshot cur;
    std::vector<CallerFrame> slots;
    std::vector<EFrame> lastCol;
    std::vector<Saved> saved;
    bool premise_broken = false, i5 = true, stop = false;
    std::string refusedTaint; // C05 only: the first refused call that changed the object ("" if none)
    int gen = 0;            // 0 built through the API, n >= 1: n-th generation of load
    bool pristine = false;  // loaded and not modified since
    int loaded_from = -1;   // index into saved
    uint64_t version = 0;   // bumps on every successful mutating call
    uint64_t last_save_version = ~0ull, last_save_hash = 0;
    std::vector<SnapFrame> model; // the frames the caller assembled, maintained from the raw values
    std::vector<SnapFrame> lastColExpect;
    int stepIdx = 0;
    uint64_t th = 0xcbf29ce484222325ULL;
    std::string lastWhat; // what() of the last exception thrown by the object
    std::string ctxTag;   // context of the call being checked (becomes part of C05 keys)
    bool api_lineage = true;

    bool on(uint32_t o) const { return (cfg.oracles & o) != 0; }
    void violate(const char *prop, const std::string &key, const std::string &detail) {
        Violation v;
        v.prop = prop; v.key = std::string(prop) + "/" + key; v.detail = detail; v.step = stepIdx;
        res.viol.push_back(v);
        if (cfg.stop_at_first_violation) stop = true;
    }
    void probe(const std::string &n) { res.st.probes[n]++; }
    std::string pathFor(int64_t id) const { return disk_root() + "/" + cfg.actor + "/f" + tos(id) + ".c3d"; }
    void mutated() { ++version; pristine = false; }
    void noteState();
    void afterCall(const Step &st, bool threw, const std::string &exc, const Snapshot &before, bool mutating);

    void doNew();
    void doLoad(const Step &st, StepRecord &rec);
    void doDecl(const Step &st, StepRecord &rec, bool analog);
    void doRate(const Step &st, StepRecord &rec);
    void doParam(const Step &st, StepRecord &rec);
    void doLock(const Step &st, StepRecord &rec, bool lock);
    void buildInto(CallerFrame &cf, int dev, Rng &r, int64_t nsubOverride);
    void doFrameBuild(const Step &st, StepRecord &rec);
    void doFillGaps(const Step &st, StepRecord &rec);
    void doBulk(const Step &st, StepRecord &rec);
    void doParamEdit(const Step &st, StepRecord &rec);
    void doFrameDup(const Step &st, StepRecord &rec);
    void doLookup(const Step &st, StepRecord &rec);
    void doAdopt(const Step &st, StepRecord &rec);
    void doFrameSubmit(const Step &st, StepRecord &rec);
    void doFrameMutate(const Step &st, StepRecord &rec);
    void doCol(const Step &st, StepRecord &rec, bool analog);
    void doColMutate(const Step &st, StepRecord &rec);
    void doSave(const Step &st, StepRecord &rec);
    void doReload(const Step &st, StepRecord &rec);
    void doPrint(const Step &st, StepRecord &rec);
    bool loadFrom(const std::string &path, const FaultSpec &f, StepRecord &rec, std::string *what);
    std::vector<uint8_t> preImage(); // C10: what a save would write right now ("" bytes if it throws)
};

void World::noteState() {
    if (!obj) return;
    const Snapshot &s = cur;
    uint64_t sig = 0;
    int64_t used = 0, aused = 0;
    float pr = 0, ar = 0;
    get_int(s, "POINT", "USED", used); get_int(s, "ANALOG", "USED", aused);
    get_float(s, "POINT", "RATE", pr); get_float(s, "ANALOG", "RATE", ar);
    bool gaps = false, anyLock = false;
    for (auto &f : s.frames) if (f.empty()) gaps = true;
    for (auto &g : s.groups) if (g.locked) anyLock = true;
    sig = bucket(static_cast<uint64_t>(used), {1, 2, 4, 16, 64, 255});
    sig = sig * 8 + bucket(static_cast<uint64_t>(aused), {1, 2, 4, 16, 64, 255});
    sig = sig * 8 + bucket(s.h.nbAnalogByFrame, {1, 2, 4, 10});
    sig = sig * 8 + bucket(s.frames.size(), {1, 2, 8, 64, 1024});
    sig = sig * 2 + gaps;
    sig = sig * 2 + (pr != 0.0f);
    sig = sig * 2 + (ar != 0.0f);
    sig = sig * 2 + (s.groups.size() > 3);
    sig = sig * 4 + static_cast<uint64_t>(gen > 2 ? 2 : gen);
    sig = sig * 2 + anyLock;
    sig = sig * 2 + premise_broken;
    res.st.states.insert(sig);
}

std::vector<uint8_t> World::preImage() {
    std::vector<uint8_t> img;
    if (!obj) return img;
    std::string p = disk_root() + "/" + cfg.actor + "/c10.tmp";
    try {
        disk_begin_op(FaultSpec());
        obj->write(p);
        disk_end_op();
        disk_get(p, img);
    } catch (...) {
        disk_end_op();
        img.clear();
        img.push_back(0xEE); // marker: save threw
    }
    disk_remove(p);
    return img;
}

// Oracles common to every call on the object
void World::afterCall(const Step &st, bool threw, const std::string &exc, const Snapshot &before, bool mutating) {
    (void)st;
    if (threw) {
        res.st.refused++;
        if (on(ORC_C10) && mutating) {
            std::string facet;
            std::string d = diff_snapshots(before, cur, DiffOpts(), &facet);
            if (!d.empty()) {
                // objects loaded from files that lack one of the parameters the updaters take for granted form one family
                if (gen >= 1 && lastWhat.find("could not find") != std::string::npos)
                    violate("C10", std::string("changed-after-throw/loaded-file-lacks-parameter/") + op_name(st.op),
                            "object loaded from a file changed by a call that threw " + exc + " (" + lastWhat + "): " + d);
                else
                    violate("C10", std::string("changed-after-throw/") + op_name(st.op) + "/" + exc + "/" + facet,
                            "object changed by a call that threw " + exc + " (" + lastWhat + "): " + d);
            }
        }
    } else if (mutating) {
        res.st.mutating_ok++;
        mutated();
    }
    if (threw && mutating && hash_snapshot(before) != hash_snapshot(cur) && !premise_broken) {
        // C10's business. Under C05 the history goes on ("after every successful public call" includes the calls that
        // follow), but a disagreement found from here on names the refused call that changed the object, so that the
        // known family (objects loaded from files that lack a parameter the updaters need) stays apart from any other.
        if (on(ORC_C05)) {
            if (refusedTaint.empty()) {
                refusedTaint = (gen >= 1 && lastWhat.find("could not find") != std::string::npos) ? std::string("loaded-file-lacks-parameter") : std::string(op_name(st.op)) + "/" + exc;
                probe("c05.goes-on-after-a-refused-call-changed-the-object");
            }
        } else { premise_broken = true; res.st.premise_broken++; probe("premise.refused-call-changed-object"); }
    }
    if (threw && mutating && hash_snapshot(before) != hash_snapshot(cur)) mutated(); // the object is not the one saved before
    if (!stop && on(ORC_C05) && !premise_broken && !threw && mutating) {
        std::string facet;
        size_t fi = SIZE_MAX;
        std::string d = check_c05(cur, i5, &facet, &fi);
        if (!d.empty()) {
            std::string key = facet + "/" + op_name(st.op);
            if (!refusedTaint.empty()) key += "/after-refused-call-changed-object:" + refusedTaint;
            else {
                if (!ctxTag.empty()) key += "/" + ctxTag;
                if (fi != SIZE_MAX && fi < before.frames.size() && before.frames[fi].empty()) key += "/gap-frame";
            }
            violate("C05", key, d);
        }
    }
    ctxTag.clear();
    if (!stop && on(ORC_C10) && threw && mutating) {
        // agreement of C05 must still hold after the refused call (if it held before it)
        std::string f0, f1;
        if (check_c05(before, i5, &f0).empty() && !premise_broken) {
            std::string d = check_c05(cur, i5, &f1);
            if (!d.empty()) violate("C10", std::string("c05-after-throw/") + op_name(st.op) + "/" + f1, d);
        }
    }
}

void World::doNew() {
    obj.reset();
    obj.reset(new ezc3d::c3d());
    gen = 0; pristine = false; loaded_from = -1; i5 = true; premise_broken = false; refusedTaint.clear(); model.clear(); api_lineage = true;
    ++version;
}

// The object being constructed by a load on this thread, for the budget probes: the data reader of ezc3d runs inside the
// constructor, after the header and the parameter section have been stored in the (still incomplete) object.
namespace {
thread_local const ezc3d::c3d *t_loading = nullptr;
struct C3dPeek : ezc3d::c3d { // never instantiated: a derived class may name the protected members of its base
    static bool params_stored(const ezc3d::c3d &c) { return static_cast<bool>(c.*(&C3dPeek::_parameters)); }
};
int loading_phase() { return t_loading && C3dPeek::params_stored(*t_loading) ? 1 : 0; }
ClaimedCounts loading_claims() {
    ClaimedCounts cc;
    if (!t_loading) return cc;
    const ezc3d::Header &h = t_loading->header();
    unsigned __int128 per = static_cast<unsigned __int128>(4) * h.nb3dPoints() + static_cast<unsigned __int128>(h.nbAnalogByFrame()) * h.nbAnalogs();
    unsigned __int128 v = per * h.nbFrames();
    cc.values = v > (static_cast<unsigned __int128>(1) << 62) ? (1ull << 62) : static_cast<uint64_t>(v);
    unsigned __int128 o = (static_cast<unsigned __int128>(2) + h.nb3dPoints() + static_cast<unsigned __int128>(h.nbAnalogByFrame()) * (1 + static_cast<unsigned __int128>(h.nbAnalogs()))) * h.nbFrames();
    cc.objects = o > (static_cast<unsigned __int128>(1) << 62) ? (1ull << 62) : static_cast<uint64_t>(o);
    cc.frames = h.nbFrames(); cc.points = h.nb3dPoints(); cc.subframes = h.nbAnalogByFrame(); cc.channels = h.nbAnalogs();
    return cc;
}
} // namespace

bool World::loadFrom(const std::string &path, const FaultSpec &f, StepRecord &rec, std::string *what) {
    obj.reset();
    std::vector<uint8_t> bytes;
    disk_get(path, bytes);
    uint64_t S = bytes.size();
    seam_reset_counters();
    disk_begin_op(f);
    budget_set_probes(loading_phase, loading_claims);
    void *mem = ::operator new(sizeof(ezc3d::c3d)); // storage first, so that the probes can look at the object while it loads
    budget_arm(S); // every load runs under the read/heap budgets; only C16 turns a trip into its own violation
    bool ok = false;
    t_loading = static_cast<const ezc3d::c3d *>(mem);
    try {
        obj.reset(new (mem) ezc3d::c3d(path));
        ok = true;
    } catch (...) {
        rec.threw = true;
        rec.exc = classify_current_exception(what);
    }
    t_loading = nullptr;
    BudgetState bs = budget_disarm();
    if (!ok) ::operator delete(mem);
    OpStats os = disk_end_op();
    res.st.io_calls += os.read_calls + os.seeks + os.opens;
    res.st.read_seam_calls += seam_read_calls();
    res.st.faults_fired += os.f_eintr_r + os.f_short_read;
    if (ok && S) {
        double rr = static_cast<double>(seam_read_calls()) / static_cast<double>(S);
        if (rr > res.st.worst_read_ratio) res.st.worst_read_ratio = rr;
        {
            double hr = static_cast<double>(bs.heap_peak) / static_cast<double>(S);
            if (hr > res.st.worst_heap_ratio) res.st.worst_heap_ratio = hr;
        }
    }
    ++version;
    return ok;
}

void World::doLoad(const Step &st, StepRecord &rec) {
    std::string src = st.s.empty() ? std::string("image") : st.s[0];
    std::string path = disk_root() + "/" + cfg.actor + "/in.c3d";
    std::vector<uint8_t> bytes;
    if (src.compare(0, 7, "vendor:") == 0) {
        std::string name = src.substr(7);
        std::string real = name == "markers_analogs" ? "/repo/example/markers_analogs.c3d" : "/repo/test/c3dFiles/" + name + ".c3d";
        bytes = read_real_file(real);
    } else if (src.compare(0, 4, "gen:") == 0) {
        uint64_t seed = std::strtoull(src.c_str() + 4, nullptr, 10);
        Rng r(seed);
        EncLayout L = gen_layout(r);
        EncContent C = gen_content(r);
        if (C.frames == 0 && r.chance(1, 2)) L.label_delta = -1 - static_cast<int>(r.below(2)); // a frameless file that declares more points than it labels
        bytes = ref_encode(L, C);
    } else if (src.compare(0, 4, "lim:") == 0) {
        unsigned first = 1, frames = 0, points = 1;
        int gdesc = -1;
        std::sscanf(src.c_str() + 4, "%u:%u:%u:%d", &first, &frames, &points, &gdesc);
        EncLayout L; EncContent C;
        L.force_group_desc = gdesc;
        L.first_frame = first; L.seed = first * 31 + frames;
        C.points = points; C.frames = frames; C.value_seed = first + 7;
        bytes = ref_encode(L, C);
    } else if (cfg.image) {
        bytes = *cfg.image;
    }
    if (src == "missing") disk_remove(path); // no file at that path: documented to be reported as an I/O failure
    else disk_put(path, bytes);
    std::string what;
    bool ok = loadFrom(path, st.fault, rec, &what);
    if (src == "missing") {
        probe("load.missing-file");
        if (ok || rec.exc != "ios_failure") { if (res.notes.size() < 3) res.notes.push_back("NOTE unclaimed=load-of-a-missing-file " + (ok ? std::string("returned an object") : "threw " + rec.exc)); }
    }
    if (ok) {
        cur = take_snapshot(*obj);
        gen = 1; pristine = true; loaded_from = -1;
        premise_broken = false; refusedTaint.clear(); model = cur.frames; api_lineage = false;
        std::string f;
        i5 = check_c05(cur, true, &f).empty(); // I5 only claimed for histories in which it held after the load
        // register the external file as "saved" so that generations can be tracked
        Saved sv;
        sv.path = path; sv.snap = cur; sv.image = bytes; sv.writer_gen = -1; sv.writer_pristine = false;
        saved.push_back(sv);
        loaded_from = static_cast<int>(saved.size()) - 1;
        if (on(ORC_NOTE_C02)) {
            RefFile rf; std::string why;
            if (ref_decode(bytes, rf, nullptr).empty()) {
                Snapshot ref;
                if (ref_to_snapshot(rf, bytes, ref, &why)) {
                    DiffOpts o; o.skip_prologue = false; o.skip_file_position = false;
                    std::string d = diff_snapshots(ref, cur, o, nullptr);
                    if (!d.empty()) res.notes.push_back("NOTE unclaimed=C02 load of " + src + " disagrees with reference decode: " + d);
                }
            }
        }
    } else {
        probe("load.refused." + rec.exc);
    }
}

void World::doDecl(const Step &st, StepRecord &rec, bool analog) {
    if (!obj || st.s.empty()) { rec.skipped = true; return; }
    Snapshot before = cur;
    std::vector<uint8_t> pre;
    if (on(ORC_C10)) pre = preImage();
    try {
        if (analog) obj->analog(st.s[0]); else obj->point(st.s[0]);
    } catch (...) { rec.threw = true; rec.exc = classify_current_exception(&lastWhat); }
    cur = take_snapshot(*obj);
    // C06: declaring a name on a data set that already has frames adds exactly one column
    bool uniform = !premise_broken; // a data set that already holds frames outside the declared shape has no defined column extension
    for (auto &f0 : before.frames) if (!f0.empty() && analog && f0.subs.size() != before.h.nbAnalogByFrame) uniform = false;
    if (!rec.threw && (on(ORC_C06) || on(ORC_C08)) && !before.frames.empty() && uniform) {
        const char *dprop = on(ORC_C06) ? "C06" : "C08";
        bool ok = cur.frames.size() == before.frames.size();
        std::string d;
        for (size_t f = 0; ok && f < cur.frames.size(); ++f) {
            SnapFrame exp = before.frames[f];
            if (analog) {
                for (auto &sub : exp.subs) { SnapChan c; c.name = st.s[0]; c.v = 0; sub.push_back(c); }
            } else {
                SnapPoint p; p.name = st.s[0]; exp.pts.push_back(p);
            }
            // gap frames and frames without sub-frames have no defined extension: only require that they did not shrink
            if (before.frames[f].empty() || (analog && before.frames[f].subs.empty())) continue;
            std::string fc;
            d = diff_frame(exp, cur.frames[f], &fc);
            if (!d.empty()) { violate(dprop, std::string("declare-column/") + (analog ? "analog/" : "point/") + fc, "frame " + tos(f) + ": " + d); break; }
        }
        if (!ok) violate(dprop, "declare-column/frame-count", "frame count changed by a declaration");
    }
    if (!rec.threw && !before.frames.empty() && model.size() == before.frames.size())
        for (size_t f = 0; f < model.size(); ++f) {
            if (analog) { for (auto &sub : model[f].subs) { SnapChan c; c.name = st.s[0]; c.v = 0; sub.push_back(c); } }
            else { SnapPoint p; p.name = st.s[0]; model[f].pts.push_back(p); }
        }
    afterCall(st, rec.threw, rec.exc, before, true);
    if (!stop && rec.threw && on(ORC_C10)) {
        std::vector<uint8_t> post = preImage();
        if (pre != post) violate("C10", std::string("save-differs-after-throw/") + op_name(st.op), "a save after the refused call differs from a save before it");
    }
}

void World::doRate(const Step &st, StepRecord &rec) {
    if (!obj || st.i.size() < 2) { rec.skipped = true; return; }
    Snapshot before = cur;
    EParam p("RATE");
    p.set(std::vector<float>() = {bits2f(static_cast<uint32_t>(st.i[1]))});
    const char *g = st.i[0] ? "ANALOG" : "POINT";
    try { obj->parameter(g, p); } catch (...) { rec.threw = true; rec.exc = classify_current_exception(&lastWhat); }
    cur = take_snapshot(*obj);
    if (!rec.threw) {
        // rates that contradict the sub-frame count of frames already stored: content the format cannot hold
        float pr = 0, ar = 0;
        size_t subs = 0;
        for (auto &f : cur.frames) if (!f.subs.empty()) { subs = f.subs.size(); break; }
        if (subs && get_float(cur, "POINT", "RATE", pr) && get_float(cur, "ANALOG", "RATE", ar)) {
            bool okRatio = pr == 0.0f ? subs == 1 : static_cast<size_t>(ar / pr) == subs;
            if (!okRatio && !premise_broken) { premise_broken = true; res.st.premise_broken++; probe("rate.contradicts-data"); }
        }
    }
    afterCall(st, rec.threw, rec.exc, before, true);
}

// i: type, lock, preset, ndims(-1 default), dims.., nvals, vals.. ; s: group, name, desc, strvals..
void World::doParam(const Step &st, StepRecord &rec) {
    if (!obj || st.i.size() < 4 || st.s.size() < 3) { rec.skipped = true; return; }
    int type = static_cast<int>(st.i[0]);
    bool lock = st.i[1] != 0, preset = st.i[2] != 0;
    int64_t nd = st.i[3];
    size_t k = 4;
    std::vector<size_t> dims;
    for (int64_t d = 0; d < nd && k < st.i.size(); ++d, ++k) dims.push_back(static_cast<size_t>(st.i[k] < 0 ? 0 : st.i[k]));
    size_t nvals = k < st.i.size() ? static_cast<size_t>(st.i[k++]) : 0;
    std::vector<int64_t> vals;
    for (size_t v = 0; v < nvals && k < st.i.size(); ++v, ++k) vals.push_back(st.i[k]);
    std::vector<std::string> svals(st.s.begin() + 3, st.s.end());

    // lock field: 0 unlocked, 1 locked, 2 locked then unlocked again, 3 locked + name/description given through the setters
    int lockMode = static_cast<int>(st.i[1]);
    EParam p(lockMode == 3 ? std::string("tmp_name") : st.s[1], lockMode == 3 ? std::string("tmp description") : st.s[2]);
    if (lockMode == 3) { p.name(st.s[1]); p.description(st.s[2]); }
    if (type != 0 && preset) p.set(7);
    SnapParam pre = snap_param(p);
    bool setThrew = false;
    std::string setExc;
    size_t dataN = 0;
    try {
        // one value and no explicit shape: every other time through the scalar overloads (documented as equivalent)
        bool scalarForm = dims.empty() && ((type == 3 ? svals.size() : vals.size()) == 1) && ((type == 3 ? svals[0].size() : static_cast<size_t>(vals[0] & 0xffff)) % 2 == 1);
        if (type == 1 && scalarForm) { dataN = 1; p.set(static_cast<int>(vals[0])); }
        else if (type == 2 && scalarForm) { dataN = 1; p.set(bits2f(static_cast<uint32_t>(vals[0]))); }
        else if (type == 3 && scalarForm) { dataN = 1; p.set(svals[0]); }
        else if (type == 1) { std::vector<int> v; for (auto x : vals) v.push_back(static_cast<int>(x)); dataN = v.size(); p.set(v, dims); }
        else if (type == 2) { std::vector<float> v; for (auto x : vals) v.push_back(bits2f(static_cast<uint32_t>(x))); dataN = v.size(); p.set(v, dims); }
        else if (type == 3) { dataN = svals.size(); p.set(svals, dims); }
    } catch (...) { setThrew = true; setExc = classify_current_exception(); }
    if (type != 0 && on(ORC_C09)) {
        // documented acceptance predicate
        std::vector<size_t> eff = dims;
        if (eff.empty()) eff.push_back(dataN);
        unsigned __int128 prod = 1;
        for (size_t d : eff) prod *= d;
        bool accept = dataN == 0 ? (prod == 0) : (prod == dataN);
        if (accept && setThrew) violate("C09", "set/refused-consistent-shape/" + setExc, "Parameter::set refused values whose count equals the product of the dimensions");
        else if (!accept && !setThrew) violate("C09", "set/accepted-inconsistent-shape", "Parameter::set accepted " + tos(dataN) + " values for dimensions of another size");
        else if (!accept && setThrew && setExc != "range_error") violate("C09", "set/refusal-class/" + setExc, "inconsistent dimensions refused with " + setExc + ", documented: range error");
        else if (!accept && setThrew) {
            SnapParam post = snap_param(p);
            std::string fc, d = diff_param(pre, post, false, &fc);
            if (!d.empty()) violate("C09", "set/changed-after-refusal/" + fc, "parameter changed by a refused set: " + d);
            probe("param.set.refused");
        } else {
            SnapParam post = snap_param(p);
            std::vector<uint64_t> expDims(eff.begin(), eff.end());
            if (type == 3) { size_t longest = 0; for (auto &s : svals) longest = std::max(longest, s.size()); expDims.insert(expDims.begin(), longest); }
            bool ok = post.dims == expDims && post.type == (type == 1 ? 2 : type == 2 ? 4 : -1);
            if (type == 1) { ok = ok && post.ints.size() == vals.size(); for (size_t i = 0; ok && i < vals.size(); ++i) ok = post.ints[i] == static_cast<int>(vals[i]); }
            if (type == 2) { ok = ok && post.floats.size() == vals.size(); for (size_t i = 0; ok && i < vals.size(); ++i) ok = post.floats[i] == static_cast<uint32_t>(vals[i]); }
            if (type == 3) ok = ok && post.strs == svals;
            ok = ok && post.name == st.s[1] && post.desc == st.s[2];
            if (!ok) violate("C09", "set/result", "Parameter::set stored something else than the given type, dimensions or values");
        }
    }
    if (stop) return;
    if (setThrew && !(type != 0 && preset)) { rec.skipped = true; rec.exc = "caller:" + setExc; return; } // nothing to hand to the object
    // (a caller that catches the range_error goes on using the parameter with the value it held before: it is handed over)
    if (setThrew) probe("param.handed-over-after-refused-set");
    if (lock) p.lock();
    if (lockMode == 2) p.unlock();
    SnapParam handed = snap_param(p);
    if (handed.name != st.s[1] || handed.desc != st.s[2] || handed.locked != (lockMode == 1 || lockMode == 3)) {
        if (on(ORC_C09)) violate("C09", "parameter-object/setters", "Parameter name/description/lock setters did not store what they were given");
        if (stop) return;
    }
    Snapshot before = cur;
    std::vector<uint8_t> preImg;
    if (on(ORC_C10)) preImg = preImage();
    try { obj->parameter(st.s[0], p); } catch (...) { rec.threw = true; rec.exc = classify_current_exception(&lastWhat); }
    cur = take_snapshot(*obj);
    if (on(ORC_C09)) {
        // documented refusals of parameter(): unnamed -> invalid_argument
        if (st.s[1].empty()) {
            if (!rec.threw) violate("C09", "parameter/unnamed-accepted", "a parameter without a name was accepted");
            else if (rec.exc != "invalid_argument") violate("C09", "parameter/unnamed-class/" + rec.exc, "unnamed parameter refused with " + rec.exc);
        } else if (type == 0) {
            if (!rec.threw) violate("C09", "parameter/untyped-accepted", "a parameter without a type was accepted");
        } else if (rec.threw) {
            if (gen >= 1 && lastWhat.find("could not find") != std::string::npos) violate("C09", "parameter/refused-valid/loaded-file-lacks-parameter", "a named, typed parameter was refused on an object loaded from a file (" + lastWhat + ")");
            else violate("C09", "parameter/refused-valid/" + rec.exc, "a named, typed parameter was refused: " + rec.exc + " (" + lastWhat + ")");
        }
    }
    if (!stop && !rec.threw && on(ORC_C09)) {
        // snapshot-transform: find-or-create group, replace-or-append parameter, nothing else moves
        std::vector<SnapGroup> exp = before.groups;
        size_t gi = exp.size();
        for (size_t g = 0; g < exp.size(); ++g) if (exp[g].name == st.s[0]) { gi = g; break; }
        if (gi == exp.size()) { SnapGroup g; g.name = st.s[0]; exp.push_back(g); }
        size_t pi = exp[gi].params.size();
        for (size_t q = 0; q < exp[gi].params.size(); ++q) if (exp[gi].params[q].name == handed.name) { pi = q; break; }
        if (pi == exp[gi].params.size()) exp[gi].params.push_back(handed); else exp[gi].params[pi] = handed;
        Snapshot e2 = cur;
        e2.groups = exp;
        DiffOpts o; o.skip_header = true; o.skip_frames = true;
        std::string fc, d = diff_snapshots(e2, cur, o, &fc);
        if (!d.empty()) violate("C09", "parameter/tree/" + fc, "parameter tree after the edit is not 'exactly what was asked': expected vs actual " + d);
        if (before.frames != cur.frames) violate("C09", "parameter/frames-changed", "adding a parameter changed stored frames");
    }
    afterCall(st, rec.threw, rec.exc, before, true);
    if (!stop && rec.threw && on(ORC_C10)) {
        std::vector<uint8_t> post = preImage();
        if (preImg != post) violate("C10", std::string("save-differs-after-throw/") + op_name(st.op), "a save after the refused call differs from a save before it");
    }
}

// the caller duplicates a stored frame by handing the object's own frame (a reference into its data) back to frame()
void World::doFrameDup(const Step &st, StepRecord &rec) {
    if (!obj || st.i.size() < 3 || cur.frames.empty()) { rec.skipped = true; return; }
    size_t n = cur.frames.size();
    size_t src = static_cast<size_t>(st.i[0]) % n;
    int mode = static_cast<int>(st.i[1]) % 4;
    size_t idx = SIZE_MAX;
    if (mode == 1) idx = static_cast<size_t>(st.i[2]) % n;
    else if (mode == 2) idx = n;
    else if (mode == 3) idx = n + 1 + static_cast<size_t>(st.i[2]) % 5;
    SnapFrame handed = cur.frames[src];
    Snapshot before = cur;
    Expectation ex = expect_frame(before, handed);
    try {
        const EFrame &own = obj->data().frame(src); // a reference into the object's own storage
        if (idx == SIZE_MAX) obj->frame(own); else obj->frame(own, idx);
    } catch (...) { rec.threw = true; rec.exc = classify_current_exception(&lastWhat); }
    cur = take_snapshot(*obj);
    rec.aux = 700 + static_cast<uint64_t>(mode);
    if (!rec.threw && ex.kind != EX_MUST_ACCEPT) { premise_broken = true; res.st.premise_broken++; }
    if (!rec.threw && (on(ORC_C06) || on(ORC_C08))) {
        const char *prop = on(ORC_C06) ? "C06" : "C08";
        size_t expectN = idx == SIZE_MAX ? n + 1 : (idx < n ? n : idx + 1);
        size_t target = idx == SIZE_MAX ? n : idx;
        if (cur.frames.size() != expectN) violate(prop, "frame-count/duplicate", "frame count " + tos(cur.frames.size()) + ", documented " + tos(expectN));
        else {
            std::string fc, d = diff_frame(handed, cur.frames[target], &fc);
            if (!d.empty()) violate(prop, "duplicate-frame/target/" + fc, "the duplicate of stored frame " + tos(src) + " differs from it: " + d);
            for (size_t f = 0; !stop && f < n; ++f) {
                if (f == target) continue;
                d = diff_frame(before.frames[f], cur.frames[f], &fc);
                if (!d.empty()) violate(prop, "duplicate-frame/other-frame-changed/" + fc, "frame " + tos(f) + " changed while frame " + tos(src) + " was duplicated: " + d);
            }
        }
    }
    ctxTag = "duplicate";
    if (!rec.threw) {
        if (idx == SIZE_MAX) model.push_back(handed);
        else { if (idx >= model.size()) model.resize(idx + 1); model[idx] = handed; }
    }
    probe("frame.duplicate-own");
    afterCall(st, rec.threw, rec.exc, before, true);
}

// C18: data flows from one object into another. The donor is shared (read-only) by every thread of the case; what a thread
// stores from it must be its own afterwards (a later edit of one thread's object must not show in another's).
static std::unique_ptr<ezc3d::c3d> g_donor;
static void donor_drop_impl() { g_donor.reset(); }
static void donor_make_impl(uint64_t seed) {
    g_donor.reset();
    if (!seed) return;
    Rng r(seed);
    unsigned P = 1 + static_cast<unsigned>(r.below(4));
    unsigned A = static_cast<unsigned>(r.below(3));
    unsigned F = 2 + static_cast<unsigned>(r.below(3));
    unsigned S = 1 + static_cast<unsigned>(r.below(2));
    std::unique_ptr<ezc3d::c3d> d(new ezc3d::c3d());
    { EParam p("RATE"); p.set(std::vector<float>() = {100.0f}); d->parameter("POINT", p); }
    { EParam p("RATE"); p.set(std::vector<float>() = {100.0f * static_cast<float>(S)}); d->parameter("ANALOG", p); }
    for (unsigned p = 0; p < P; ++p) d->point("DP" + tos(p));
    for (unsigned a = 0; a < A; ++a) d->analog("DA" + tos(a));
    for (unsigned f = 0; f < F; ++f) {
        EFrame fr; EPoints pts; EAnalogs an;
        for (unsigned p = 0; p < P; ++p) {
            EPoint pt; pt.name("DP" + tos(p));
            float x = static_cast<float>(r.below(2000)) / 8.0f; pt.x(x);
            float y = static_cast<float>(r.below(2000)) / 8.0f; pt.y(y);
            float z = static_cast<float>(r.below(2000)) / 8.0f; pt.z(z);
            pts.point(pt);
        }
        for (unsigned s = 0; s < (A ? S : 0); ++s) {
            ESub sf;
            for (unsigned a = 0; a < A; ++a) { EChan c; c.name("DA" + tos(a)); float v = static_cast<float>(r.below(4000)) / 4.0f; c.data(v); sf.channel(c); }
            an.subframe(sf);
        }
        fr.add(pts, an);
        d->frame(fr);
    }
    g_donor = std::move(d);
}

void World::doAdopt(const Step &st, StepRecord &rec) {
    if (!obj || st.i.empty() || !g_donor) { rec.skipped = true; return; }
    const ezc3d::c3d &D = *g_donor;
    size_t dn = D.data().nbFrames();
    if (!dn) { rec.skipped = true; return; }
    uint64_t sd = static_cast<uint64_t>(st.i[0]);
    Snapshot before = cur;
    int64_t u = 0, a = 0;
    get_int(cur, "POINT", "USED", u); get_int(cur, "ANALOG", "USED", a);
    try {
        if (cur.frames.empty() && u == 0 && a == 0) {
            { EParam p("RATE"); p.set(std::vector<float>() = {D.header().frameRate()}); obj->parameter("POINT", p); }
            { EParam p("RATE"); p.set(std::vector<float>() = {D.header().frameRate() * static_cast<float>(D.header().nbAnalogByFrame())}); obj->parameter("ANALOG", p); }
            for (auto &n : D.parameters().group("POINT").parameter("LABELS").valuesAsString()) obj->point(n);
            for (auto &n : D.parameters().group("ANALOG").parameter("LABELS").valuesAsString()) obj->analog(n);
            for (size_t f = 0; f < dn; ++f) obj->frame(D.data().frame(f));      // append, by reference into the donor
            obj->frame(D.data().frame((sd >> 8) % dn), sd % dn);               // replace an existing frame, by reference into the donor
            rec.aux = 901;
        } else {
            size_t n = cur.frames.size();
            const EFrame &src = D.data().frame((sd >> 8) % dn);
            if (n && (sd & 1)) obj->frame(src, (sd >> 16) % n); else obj->frame(src);
            rec.aux = 902;
        }
    } catch (...) { rec.threw = true; rec.exc = classify_current_exception(&lastWhat); }
    cur = take_snapshot(*obj);
    model = cur.frames;
    ctxTag = "adopt";
    probe(rec.threw ? "frame.adopt-from-other-object.refused" : "frame.adopt-from-other-object");
    (void)before;
}

// the caller copies a parameter out of the object, edits the copy through its setters and hands it back
void World::doParamEdit(const Step &st, StepRecord &rec) {
    if (!obj || st.i.size() < 3 || st.s.empty() || cur.groups.empty()) { rec.skipped = true; return; }
    size_t gi = static_cast<size_t>(st.i[0]) % cur.groups.size();
    if (cur.groups[gi].params.empty() || cur.groups[gi].name.empty()) { rec.skipped = true; return; }
    size_t pi = static_cast<size_t>(st.i[1]) % cur.groups[gi].params.size();
    int kind = static_cast<int>(st.i[2]) % 5;
    if (kind == 4 && st.i.size() > 3 && (st.i[3] & 1)) {
        // prefer a BYTE parameter if the object holds one (only files bring them; they are rare among dozens of parameters)
        for (size_t g = 0; g < cur.groups.size(); ++g)
            for (size_t q = 0; q < cur.groups[g].params.size(); ++q)
                if (cur.groups[g].params[q].type == 1 && !cur.groups[g].name.empty() && cur.groups[g].name != "POINT" && cur.groups[g].name != "ANALOG") { gi = g; pi = q; g = cur.groups.size() - 1; break; }
    }
    // kind 4: the copy gets NEW VALUES of another (or the same) type through set(), then goes back
    // kind 3: no copy at all - the object's own parameter is handed (by reference) to c3d::parameter for another group,
    // possibly one that does not exist yet, so that the group store grows while the argument lives inside it
    bool alias = kind == 3;
    std::string target = cur.groups[gi].name;
    if (alias) {
        int64_t sel = st.i.size() > 3 ? st.i[3] : 0;
        if (sel % 3 == 0) target = cur.groups[static_cast<size_t>(sel / 3) % cur.groups.size()].name;
        else target = st.s.size() > 1 ? st.s[1] : std::string("ALIAS");
        if (target.empty()) { rec.skipped = true; return; }
        // handing e.g. ANALOG:USED to the POINT group is the user rewriting the shape parameters by hand: outside every premise
        if ((target == "POINT" || target == "ANALOG") && target != cur.groups[gi].name) { rec.skipped = true; return; }
    }
    EParam p(obj->parameters().group(gi).parameter(pi)); // a copy
    if (kind == 0 || kind == 2) p.description(st.s[0]);
    if (kind == 1 || kind == 2) { if (p.isLocked()) p.unlock(); else p.lock(); }
    if (kind == 4 && (cur.groups[gi].name == "POINT" || cur.groups[gi].name == "ANALOG")) { rec.skipped = true; return; } // rewriting the shape parameters by hand with other types: outside every premise
    if (kind == 4) {
        // whatever the parameter held (a BYTE array of a loaded file, strings, ...): after set() it is what was set
        Rng vr(static_cast<uint64_t>(st.i.size() > 3 ? st.i[3] : 1) * 0x9e3779b97f4a7c15ull + 11);
        unsigned nt = static_cast<unsigned>(vr.below(3));
        size_t n = 1 + vr.below(5);
        SnapParam want;
        try {
            if (nt == 0) { std::vector<int> v; for (size_t q = 0; q < n; ++q) v.push_back(static_cast<int>(vr.below(60000)) - 30000); p.set(v); want.type = 2; for (int x : v) want.ints.push_back(x); }
            else if (nt == 1) { std::vector<float> v; for (size_t q = 0; q < n; ++q) v.push_back(bits2f(gen_float_bits(vr))); p.set(v); want.type = 4; for (float x : v) want.floats.push_back(f2bits(x)); }
            else { std::vector<std::string> v; for (size_t q = 0; q < n; ++q) v.push_back("v" + tos(vr.below(1000))); p.set(v); want.type = -1; want.strs = v; }
            SnapParam got = snap_param(p);
            if (on(ORC_C09) && (got.type != want.type || got.ints != want.ints || got.floats != want.floats || got.strs != want.strs))
                violate("C09", "set/copy-of-stored-parameter-not-as-set", "a copy of a stored parameter (type " + tos(cur.groups[gi].params[pi].type) + ") was given new values through set(): type / values are not the ones given");
        } catch (...) {
            if (on(ORC_C09)) violate("C09", "set/refused-consistent-shape/" + classify_current_exception(), "set() with a plain list of values was refused on a copy of a stored parameter");
        }
        probe("param.edit-reset-values");
        if (cur.groups[gi].params[pi].type == 1) probe("param.edit-reset-values.of-a-byte-parameter");
    }
    SnapParam handed = snap_param(p);
    Snapshot before = cur;
    std::vector<uint8_t> preImg;
    if (on(ORC_C10)) preImg = preImage();
    try {
        if (alias) obj->parameter(target, obj->parameters().group(gi).parameter(pi));
        else obj->parameter(target, p);
    } catch (...) { rec.threw = true; rec.exc = classify_current_exception(&lastWhat); }
    cur = take_snapshot(*obj);
    if (on(ORC_C09)) {
        if (rec.threw) {
            if (gen >= 1 && lastWhat.find("could not find") != std::string::npos) violate("C09", "parameter/refused-valid/loaded-file-lacks-parameter", "a parameter copied out of the object and handed back was refused on an object loaded from a file (" + lastWhat + ")");
            else violate("C09", std::string(alias ? "parameter-alias" : "parameter-edit") + "/refused/" + rec.exc, "a parameter of the object, handed back, was refused: " + rec.exc + " (" + lastWhat + ")");
        } else {
            Snapshot e2 = before;
            // the FIRST group of that name receives it (a file may hold two groups with one name), and in it the first
            // parameter of that name is replaced, otherwise the parameter is appended; an unknown group is created at the end
            size_t tg = e2.groups.size();
            for (size_t g = 0; g < e2.groups.size(); ++g) if (e2.groups[g].name == target) { tg = g; break; }
            if (tg == e2.groups.size()) { SnapGroup ng; ng.name = target; e2.groups.push_back(ng); }
            size_t tgt = e2.groups[tg].params.size();
            for (size_t q = 0; q < e2.groups[tg].params.size(); ++q) if (e2.groups[tg].params[q].name == handed.name) { tgt = q; break; }
            if (tgt == e2.groups[tg].params.size()) e2.groups[tg].params.push_back(handed); else e2.groups[tg].params[tgt] = handed;
            DiffOpts o; o.skip_header = true; o.skip_frames = true;
            std::string fc, d = diff_snapshots(e2, cur, o, &fc);
            if (!d.empty()) violate("C09", std::string(alias ? "parameter-alias" : "parameter-edit") + "/tree/" + fc, "after handing back a parameter of the object the tree is not 'exactly what was asked': " + d);
        }
    }
    if (alias) probe("param.alias-own-parameter");
    probe("param.edit-copy");
    afterCall(st, rec.threw, rec.exc, before, true);
    if (!stop && rec.threw && on(ORC_C10)) {
        std::vector<uint8_t> post = preImage();
        if (preImg != post) violate("C10", std::string("save-differs-after-throw/") + op_name(st.op), "a save after the refused call differs from a save before it");
    }
}

// Read-only: the by-name getters. What they return goes into the step's digest (so that C18's solo-equivalence, C19's
// build comparison and the sanitizers see these paths); a by-name answer that disagrees with the by-index view of the
// same object is reported as a NOTE only (no listed property speaks about getters).
void World::doLookup(const Step &st, StepRecord &rec) {
    if (!obj || st.i.empty()) { rec.skipped = true; return; }
    Rng r(static_cast<uint64_t>(st.i[0]));
    uint64_t h = 0x10c;
    auto note = [&](const std::string &what) { if (res.notes.size() < 3) res.notes.push_back("NOTE unclaimed=getter-by-name " + what); };
    for (int q = 0; q < 8; ++q) {
        unsigned kind = static_cast<unsigned>(r.below(4));
        uint64_t pick = r.next() >> 1;
        bool missing = r.chance(1, 8);
        try {
            if (kind == 0 && !cur.frames.empty()) {
                size_t f = pick % cur.frames.size();
                const SnapFrame &sf = cur.frames[f];
                if (sf.pts.empty()) continue;
                size_t want = (pick / 7) % sf.pts.size();
                std::string name = missing ? "no_such_point_" : sf.pts[want].name;
                size_t first = 0; while (first < sf.pts.size() && sf.pts[first].name != name) ++first;
                const EPoints &pts = obj->data().frame(f).points();
                size_t idx = pts.pointIdx(name);
                const EPoint &p = pts.point(name);
                h = mix(h, mix(idx, f2bits(p.x())));
                if (idx != first || f2bits(p.x()) != sf.pts[first].x) note("point('" + name + "') of frame " + tos(f) + " is not the first point of that name");
            } else if (kind == 1 && !cur.frames.empty()) {
                size_t f = pick % cur.frames.size();
                const SnapFrame &sf = cur.frames[f];
                if (sf.subs.empty()) continue;
                size_t k = (pick / 5) % sf.subs.size();
                if (sf.subs[k].empty()) continue;
                size_t want = (pick / 11) % sf.subs[k].size();
                std::string name = missing ? "no_such_channel_" : sf.subs[k][want].name;
                size_t first = 0; while (first < sf.subs[k].size() && sf.subs[k][first].name != name) ++first;
                const ESub &sub = obj->data().frame(f).analogs().subframe(k);
                size_t idx = sub.channelIdx(name);
                const EChan &ch = sub.channel(name);
                h = mix(h, mix(idx, f2bits(ch.data())));
                if (idx != first || f2bits(ch.data()) != sf.subs[k][first].v) note("channel('" + name + "') of frame " + tos(f) + " sub-frame " + tos(k) + " is not the first channel of that name");
            } else if (kind == 2 && !cur.groups.empty()) {
                size_t g = pick % cur.groups.size();
                std::string name = missing ? "no_such_group_" : cur.groups[g].name;
                size_t first = 0; while (first < cur.groups.size() && cur.groups[first].name != name) ++first;
                size_t idx = obj->parameters().groupIdx(name);
                const ezc3d::ParametersNS::GroupNS::Group &grp = obj->parameters().group(name);
                h = mix(h, mix(idx, grp.nbParameters()));
                if (idx != first || grp.nbParameters() != cur.groups[first].params.size()) note("group('" + name + "') is not the first group of that name");
            } else if (kind == 3 && !cur.groups.empty()) {
                size_t g = pick % cur.groups.size();
                const SnapGroup &sg = cur.groups[g];
                if (sg.params.empty() || sg.name.empty()) continue;
                size_t want = (pick / 13) % sg.params.size();
                std::string name = missing ? "no_such_parameter_" : sg.params[want].name;
                size_t first = 0; while (first < sg.params.size() && sg.params[first].name != name) ++first;
                const ezc3d::ParametersNS::GroupNS::Group &grp = obj->parameters().group(g);
                size_t idx = grp.parameterIdx(name);
                const EParam &p = grp.parameter(name);
                h = mix(h, mix(idx, hash_str(p.description()) + static_cast<uint64_t>(p.type())));
                if (idx != first) note("parameter('" + name + "') of group " + sg.name + " is not the first parameter of that name");
            }
            if (missing) h = mix(h, 0xbadULL); // a name the object does not hold was answered without an exception
        } catch (...) {
            std::string exc = classify_current_exception(&lastWhat);
            h = mix(h, hash_str(exc));
            if (!missing) note("a name the object holds was refused with " + exc);
        }
    }
    // the whole-container getters and the typed value accessors (right and wrong type)
    try {
        h = mix(h, obj->parameters().groups().size());
        if (obj->parameters().groups().size() != cur.groups.size()) note("groups() and nbGroups() disagree");
        if (!cur.groups.empty()) {
            size_t g = r.below(cur.groups.size());
            const std::vector<EParam> &ps = obj->parameters().group(g).parameters();
            h = mix(h, ps.size());
            if (ps.size() != cur.groups[g].params.size()) note("parameters() and nbParameters() disagree");
            if (!ps.empty()) {
                const EParam &p = ps[r.below(ps.size())];
                for (int t = 0; t < 4; ++t) {
                    try {
                        uint64_t n = t == 0 ? p.valuesAsByte().size() : t == 1 ? p.valuesAsInt().size() : t == 2 ? p.valuesAsFloat().size() : p.valuesAsString().size();
                        h = mix(h, n + 16 * static_cast<uint64_t>(t));
                    } catch (...) { h = mix(h, hash_str(classify_current_exception()) + static_cast<uint64_t>(t)); }
                }
            }
        }
        h = mix(h, obj->data().frames().size());
        if (obj->data().frames().size() != cur.frames.size()) note("frames() and nbFrames() disagree");
        if (!cur.frames.empty()) {
            size_t f = r.below(cur.frames.size());
            const EFrame &fr = obj->data().frames()[f];
            h = mix(h, mix(fr.points().points().size(), fr.analogs().subframes().size()));
            if (fr.points().points().size() != cur.frames[f].pts.size() || fr.analogs().subframes().size() != cur.frames[f].subs.size()) note("points()/subframes() disagree with the counts");
            if (!fr.analogs().subframes().empty()) h = mix(h, fr.analogs().subframes()[0].channels().size());
            if (!fr.points().points().empty()) { std::vector<float> d = fr.points().points()[0].data(); for (float v : d) h = mix(h, f2bits(v)); }
        }
    } catch (...) { h = mix(h, hash_str(classify_current_exception()) + 99); note("a whole-container getter threw"); }
    rec.aux = h;
    probe("lookup.by-name");
}

void World::doLock(const Step &st, StepRecord &rec, bool lock) {
    if (!obj || st.s.empty()) { rec.skipped = true; return; }
    Snapshot before = cur;
    try { if (lock) obj->lockGroup(st.s[0]); else obj->unlockGroup(st.s[0]); }
    catch (...) { rec.threw = true; rec.exc = classify_current_exception(&lastWhat); }
    cur = take_snapshot(*obj);
    if (on(ORC_C09)) {
        bool exists = before.group(st.s[0]) != nullptr;
        if (!exists) {
            if (!rec.threw) violate("C09", "lock/unknown-group-accepted", "locking an unknown group did not throw");
            else if (rec.exc != "invalid_argument") violate("C09", "lock/unknown-group-class/" + rec.exc, "unknown group refused with " + rec.exc);
        } else if (rec.threw) violate("C09", "lock/refused-known-group/" + rec.exc, "lock toggle of an existing group threw");
        else {
            Snapshot e2 = before;
            for (auto &g : e2.groups) if (g.name == st.s[0]) { g.locked = lock; break; }
            std::string fc, d = diff_snapshots(e2, cur, DiffOpts(), &fc);
            if (!d.empty()) violate("C09", "lock/changed-more/" + fc, "lock toggle changed more than the flag: " + d);
        }
    }
    afterCall(st, rec.threw, rec.exc, before, true);
}

void World::buildInto(CallerFrame &cf, int dev, Rng &r, int64_t nsubOverride) {
    const std::vector<std::string> *L = get_strs(cur, "POINT", "LABELS");
    const std::vector<std::string> *AL = get_strs(cur, "ANALOG", "LABELS");
    std::vector<std::string> pn = L ? *L : std::vector<std::string>();
    std::vector<std::string> cn = AL ? *AL : std::vector<std::string>();
    size_t nsub = 0;
    if (!cn.empty()) {
        for (auto &f : cur.frames) if (!f.subs.empty()) { nsub = f.subs.size(); break; }
        if (!nsub) nsub = cur.h.nbAnalogByFrame;
        if (!nsub) nsub = 1;
    }
    if (nsubOverride > 0) nsub = static_cast<size_t>(nsubOverride);
    if (nsub > 12) nsub = 12; // late rate changes can ask for hundreds of sub-frames per frame: keep a run cheap (such a frame deviates)
    switch (dev) {
    case DEV_POINT_MISSING: if (!pn.empty()) pn.erase(pn.begin() + static_cast<long>(r.below(pn.size()))); break;
    case DEV_POINT_EXTRA: pn.push_back("extra_" + tos(r.below(1000))); break;
    case DEV_POINT_RENAMED: if (!pn.empty()) pn[r.below(pn.size())] = "renamed_" + tos(r.below(1000)); break;
    case DEV_POINT_DUP: if (pn.size() >= 2) { size_t a = r.below(pn.size()), b = (a + 1) % pn.size(); pn[a] = pn[b]; } break;
    case DEV_CHAN_MISSING: if (!cn.empty()) cn.erase(cn.begin() + static_cast<long>(r.below(cn.size()))); break;
    case DEV_CHAN_EXTRA: cn.push_back("xchan_" + tos(r.below(1000))); if (!nsub) nsub = 1; break;
    case DEV_SUB_FEWER: if (nsub) --nsub; break;
    case DEV_SUB_MORE: ++nsub; break;
    case DEV_NO_POINTS: pn.clear(); break;
    case DEV_NO_ANALOGS: nsub = 0; break;
    case DEV_PERMUTED: if (pn.size() >= 2) { size_t a = r.below(pn.size()), b = (a + 1 + r.below(pn.size() - 1)) % pn.size(); std::swap(pn[a], pn[b]); } break;
    case DEV_EMPTY: pn.clear(); nsub = 0; break;
    default: break;
    }
    cf.pts = EPoints();
    cf.expect = SnapFrame();
    for (auto &n : pn) {
        EPoint p;
        SnapPoint sp;
        sp.name = n; sp.x = gen_float_bits(r); sp.y = gen_float_bits(r); sp.z = gen_float_bits(r); sp.r = gen_float_bits(r);
        p.name(n);
        p.x(bits2f(sp.x)); p.y(bits2f(sp.y)); p.z(bits2f(sp.z));
        p.residual(bits2f(sp.r));
        cf.pts.point(p);
        cf.expect.pts.push_back(sp);
    }
    cf.an = EAnalogs();
    for (size_t k = 0; k < nsub; ++k) {
        ESub sf;
        cf.expect.subs.push_back(std::vector<SnapChan>());
        for (auto &n : cn) { EChan c; SnapChan sc; sc.name = n; sc.v = gen_float_bits(r); c.name(n); c.data(bits2f(sc.v)); sf.channel(c); cf.expect.subs.back().push_back(sc); }
        cf.an.subframe(sf);
    }
    cf.fr = EFrame();
    cf.fr.add(cf.pts, cf.an);
    cf.built = true;
}

void World::doFrameBuild(const Step &st, StepRecord &rec) {
    if (!obj || st.i.size() < 3) { rec.skipped = true; return; }
    CallerFrame &cf = slots[static_cast<size_t>(st.i[0]) % slots.size()];
    int dev = static_cast<int>(st.i[1]) % DEV_N;
    Rng r(static_cast<uint64_t>(st.i[2]));
    buildInto(cf, dev, r, st.i.size() > 3 ? st.i[3] : 0);
    rec.aux = static_cast<uint64_t>(dev);
    // nothing declared yet and no deviation asked for: there is no frame to hand over
    if (dev == DEV_NONE && cf.expect.pts.empty() && cf.expect.subs.empty()) { cf.built = false; rec.skipped = true; probe("frame.nothing-declared"); }
}

void World::doBulk(const Step &st, StepRecord &rec) {
    if (!obj || st.i.size() < 2) { rec.skipped = true; return; }
    Rng r(static_cast<uint64_t>(st.i[1]));
    Snapshot before = cur;
    uint64_t n = static_cast<uint64_t>(st.i[0]);
    for (uint64_t k = 0; k < n; ++k) {
        CallerFrame tmp;
        buildInto(tmp, DEV_NONE, r, 0);
        try { obj->frame(tmp.fr); } catch (...) { rec.threw = true; rec.exc = classify_current_exception(); break; }
        model.push_back(tmp.expect);
    }
    cur = take_snapshot(*obj);
    afterCall(st, rec.threw, rec.exc, before, true);
}

// "complete frames": every frame left empty by an extension gets a conforming frame
void World::doFillGaps(const Step &st, StepRecord &rec) {
    if (!obj || st.i.empty()) { rec.skipped = true; return; }
    Rng r(static_cast<uint64_t>(st.i[0]));
    bool any = false;
    for (size_t f = 0; f < cur.frames.size() && !stop; ++f) {
        {   // a frame that does not carry exactly the declared shape (gap, or gap that only received later columns)
            int64_t u = 0, a = 0;
            const std::vector<std::string> *L = get_strs(cur, "POINT", "LABELS"), *AL = get_strs(cur, "ANALOG", "LABELS");
            if (get_int(cur, "POINT", "USED", u) && get_int(cur, "ANALOG", "USED", a) && L && AL && (u > 0 || a > 0) &&
                frame_complete(cur, cur.frames[f], u, a, *L, *AL)) continue;
        }
        bool shaped = false; // is there a declared shape to fill with?
        { int64_t u = 0, a = 0; get_int(cur, "POINT", "USED", u); get_int(cur, "ANALOG", "USED", a); shaped = u > 0 || a > 0; }
        if (!shaped) break;
        CallerFrame tmp;
        buildInto(tmp, DEV_NONE, r, 0);
        Snapshot before = cur;
        bool threw = false; std::string exc;
        try { obj->frame(tmp.fr, f); } catch (...) { threw = true; exc = classify_current_exception(); }
        cur = take_snapshot(*obj);
        any = true;
        if (threw) { rec.threw = true; rec.exc = exc; }
        else { if (f >= model.size()) model.resize(f + 1); model[f] = tmp.expect; }
        afterCall(st, threw, exc, before, true);
        if (threw) break;
    }
    if (!any) rec.skipped = true;
}

void World::doFrameSubmit(const Step &st, StepRecord &rec) {
    if (!obj || st.i.size() < 3) { rec.skipped = true; return; }
    CallerFrame &cf = slots[static_cast<size_t>(st.i[0]) % slots.size()];
    if (!cf.built) { rec.skipped = true; return; }
    size_t n = cur.frames.size();
    int mode = static_cast<int>(st.i[1]) % 4;
    size_t idx = SIZE_MAX;
    if (mode == 1 && n == 0) mode = 2;
    if (mode == 1) idx = static_cast<size_t>(st.i[2]) % n;
    else if (mode == 2) idx = n;
    else if (mode == 3) idx = n + 1 + static_cast<size_t>(st.i[2]) % 5;
    SnapFrame handed = snap_frame(cf.fr);
    Snapshot before = cur;
    Expectation ex = expect_frame(before, handed);
    std::vector<uint8_t> preImg;
    if (on(ORC_C10)) preImg = preImage();
    try { if (idx == SIZE_MAX) obj->frame(cf.fr); else obj->frame(cf.fr, idx); }
    catch (...) { rec.threw = true; rec.exc = classify_current_exception(&lastWhat); }
    cur = take_snapshot(*obj);
    rec.aux = static_cast<uint64_t>(ex.kind) * 16 + static_cast<uint64_t>(mode);
    if (on(ORC_C07)) {
        if (ex.kind == EX_MUST_REFUSE && !rec.threw) violate("C07", "frame/accepted-deviating", "frame accepted although: " + ex.why);
        else if (ex.kind == EX_MUST_REFUSE && !ex.classes.count(rec.exc)) violate("C07", "frame/refusal-class/" + rec.exc, "frame refused with " + rec.exc + " for: " + ex.why);
        else if (ex.kind == EX_MUST_ACCEPT && rec.threw && !premise_broken) {
            if (gen >= 1 && lastWhat.find("could not find") != std::string::npos) violate("C07", "refused-conforming/loaded-file-lacks-parameter/FRAME_SUBMIT", "a conforming frame was refused on an object loaded from a file (" + lastWhat + ")");
            else violate("C07", "frame/refused-conforming/" + rec.exc, "a frame matching the declared names, counts, rates and ratio was refused (" + rec.exc + ": " + lastWhat + ")");
        }
    }
    if (ex.kind == EX_MUST_REFUSE) probe("frame.must_refuse"); else if (ex.kind == EX_MUST_ACCEPT) probe("frame.must_accept"); else probe("frame.dont_care");
    if (!rec.threw && ex.kind != EX_MUST_ACCEPT) { premise_broken = true; res.st.premise_broken++; }
    if (!stop && !rec.threw && on(ORC_C06)) {
        size_t expectN = idx == SIZE_MAX ? n + 1 : (idx < n ? n : idx + 1);
        size_t target = idx == SIZE_MAX ? n : idx;
        if (cur.frames.size() != expectN)
            violate("C06", std::string("frame-count/") + (idx == SIZE_MAX ? "append" : idx < n ? "replace" : "extend"), "frame count " + tos(cur.frames.size()) + ", documented " + tos(expectN));
        else {
            std::string fc, d = diff_frame(cf.expect, cur.frames[target], &fc);
            if (!d.empty()) violate("C06", "target-frame/" + fc, "stored frame " + tos(target) + " differs from the frame the caller assembled: " + d);
            for (size_t f = 0; !stop && f < expectN; ++f) {
                if (f == target) continue;
                if (f < n) {
                    d = diff_frame(before.frames[f], cur.frames[f], &fc);
                    if (!d.empty()) violate("C06", "other-frame-changed/" + fc, "frame " + tos(f) + " changed while frame " + tos(target) + " was written: " + d);
                } else if (!cur.frames[f].empty())
                    violate("C06", "gap-not-empty", "frame " + tos(f) + " created by extension is not empty");
            }
        }
        if (mode == 3) probe("frame.extend"); else if (mode == 1) probe("frame.replace");
    }
    ctxTag = idx == SIZE_MAX ? "append" : idx < n ? "replace" : (n == 0 && idx > 0) ? "extend-on-empty" : "extend";
    if (!rec.threw) {
        if (idx == SIZE_MAX) model.push_back(cf.expect);
        else { if (idx >= model.size()) model.resize(idx + 1); model[idx] = cf.expect; }
    }
    afterCall(st, rec.threw, rec.exc, before, true);
    if (!stop && rec.threw && on(ORC_C10)) {
        std::vector<uint8_t> post = preImage();
        if (preImg != post) violate("C10", std::string("save-differs-after-throw/") + op_name(st.op), "a save after the refused call differs from a save before it");
    }
}

void World::doFrameMutate(const Step &st, StepRecord &rec) {
    if (st.i.size() < 3) { rec.skipped = true; return; }
    CallerFrame &cf = slots[static_cast<size_t>(st.i[0]) % slots.size()];
    if (!cf.built) { rec.skipped = true; return; }
    Rng r(static_cast<uint64_t>(st.i[2]));
    int kind = static_cast<int>(st.i[1]) % 10;
    Snapshot before = cur;
    try {
        switch (kind) {
        // 7..9: the same through the by-name accessors, and a by-index insertion past the end of the caller's containers
        case 7: if (cf.fr.points().nbPoints()) { std::string nm = cf.fr.points().point(r.below(cf.fr.points().nbPoints())).name(); cf.fr.points_nonConst().point_nonConst(nm).z(bits2f(0x4479c000u + static_cast<uint32_t>(r.below(999)))); (void)cf.fr.points().point(nm).data(); (void)cf.fr.points_nonConst().point_nonConst(nm).data_nonConst(); } break;
        case 8: if (cf.fr.analogs().nbSubframes() && cf.fr.analogs().subframe(0).nbChannels()) {
                size_t k = r.below(cf.fr.analogs().nbSubframes());
                std::string nm = cf.fr.analogs().subframe(k).channel(r.below(cf.fr.analogs().subframe(k).nbChannels())).name();
                cf.fr.analogs_nonConst().subframe_nonConst(k).channel_nonConst(nm).data(bits2f(0x4479c000u + static_cast<uint32_t>(r.below(999))));
            } break;
        case 9: {
                EPoint p; p.name("idx_" + tos(r.below(1000))); p.y(2.5f);
                cf.fr.points_nonConst().point(p, cf.fr.points().nbPoints() + r.below(2)); // at the end, or one past it (leaves an unnamed point)
                if (cf.fr.analogs().nbSubframes()) { EChan c; c.name("idxchan"); c.data(1.25f); size_t k = r.below(cf.fr.analogs().nbSubframes()); cf.fr.analogs_nonConst().subframe_nonConst(k).channel(c, cf.fr.analogs().subframe(k).nbChannels() + r.below(2)); }
                { ESub sf; cf.fr.analogs_nonConst().subframe(sf, cf.fr.analogs().nbSubframes() + r.below(2)); }
            } break;
        case 0: if (cf.fr.points().nbPoints()) cf.fr.points_nonConst().point_nonConst(r.below(cf.fr.points().nbPoints())).x(bits2f(0x4479c000u + static_cast<uint32_t>(r.below(999)))); break;
        case 1: if (cf.fr.points().nbPoints()) cf.fr.points_nonConst().point_nonConst(r.below(cf.fr.points().nbPoints())).name("mut_" + tos(r.below(1000))); break;
        case 2: { EPoint p; p.name("added_" + tos(r.below(1000))); p.x(1.5f); cf.fr.points_nonConst().point(p); break; }
        case 3: if (cf.fr.analogs().nbSubframes() && cf.fr.analogs().subframe(0).nbChannels()) {
                size_t k = r.below(cf.fr.analogs().nbSubframes());
                cf.fr.analogs_nonConst().subframe_nonConst(k).channel_nonConst(r.below(cf.fr.analogs().subframe(k).nbChannels())).data(bits2f(0x4479c000u + static_cast<uint32_t>(r.below(999))));
            } break;
        case 4: if (cf.pts.nbPoints()) cf.pts.point_nonConst(r.below(cf.pts.nbPoints())).y(-123.25f); break; // the Points the frame was built from
        case 5: { ESub sf; EChan c; c.name("addedchan"); c.data(2.5f); sf.channel(c); cf.fr.analogs_nonConst().subframe(sf); break; }
        case 6: if (cf.fr.points().nbPoints()) cf.fr.points_nonConst().point_nonConst(r.below(cf.fr.points().nbPoints())).residual(-1.0f); break;
        }
    } catch (...) { rec.exc = "caller:" + classify_current_exception(); }
    cf.expect = snap_frame(cf.fr); // from now on the caller's frame is whatever it reads as
    if (!obj) return;
    cur = take_snapshot(*obj);
    if (on(ORC_C08)) {
        std::string fc, d = diff_snapshots(before, cur, DiffOpts(), &fc);
        if (!d.empty()) violate("C08", "caller-mutation-visible/frame/" + fc, "changing the caller's own frame object changed the stored data: " + d);
    }
    probe("caller.mutate");
}

void World::doCol(const Step &st, StepRecord &rec, bool analog) {
    if (!obj || st.i.size() < 2 || st.s.empty()) { rec.skipped = true; return; }
    int dev = static_cast<int>(st.i[0]) % CDEV_N;
    Rng r(static_cast<uint64_t>(st.i[1]));
    std::vector<std::string> names = st.s;
    size_t nF = cur.frames.size();
    size_t nsub = cur.h.nbAnalogByFrame;
    const std::vector<std::string> *L = get_strs(cur, analog ? "ANALOG" : "POINT", "LABELS");
    if (dev == CDEV_FRAMES_FEWER) { if (nF) --nF; else dev = CDEV_NONE; }
    if (dev == CDEV_FRAMES_MORE) ++nF;
    if (dev == CDEV_NO_FRAMES) nF = 0;
    if (dev == CDEV_DUP_FIRST && L && !L->empty()) names[0] = (*L)[r.below(L->size())];
    if (dev == CDEV_DUP_LATER && L && !L->empty()) { if (names.size() < 2) names.push_back("x"); names.back() = (*L)[r.below(L->size())]; }
    if (dev == CDEV_EMPTY_COL) names.clear();
    if (dev == CDEV_SUB_FEWER && nsub) --nsub;
    if (dev == CDEV_SUB_MORE) ++nsub;
    lastCol.clear();
    lastColExpect.clear();
    for (size_t f = 0; f < nF; ++f) {
        EFrame fr;
        SnapFrame ef;
        size_t cnt = names.size();
        if (dev == CDEV_SHORT_LATER_FRAME && f > 0 && f + 1 == nF && cnt > 0) --cnt;
        if (analog) {
            EAnalogs an;
            // CDEV_SHORT_LATER_SUB: one sub-frame other than the first, in one frame, lacks the last channel (the frames'
            // first sub-frames all look right)
            size_t shortF = nF ? static_cast<size_t>(st.i[1] % static_cast<int64_t>(nF)) : 0, shortK = nsub > 1 ? 1 + static_cast<size_t>((st.i[1] / 7) % static_cast<int64_t>(nsub - 1)) : 0;
            for (size_t k = 0; k < nsub; ++k) {
                ESub sf;
                ef.subs.push_back(std::vector<SnapChan>());
                size_t cntK = (dev == CDEV_SHORT_LATER_SUB && shortK && f == shortF && k == shortK && cnt > 0) ? cnt - 1 : cnt;
                for (size_t c = 0; c < cntK; ++c) { EChan ch; SnapChan sc; sc.name = names[c]; sc.v = gen_float_bits(r); ch.name(names[c]); ch.data(bits2f(sc.v)); sf.channel(ch); ef.subs.back().push_back(sc); }
                an.subframe(sf);
            }
            fr.add(an);
        } else {
            EPoints pts;
            for (size_t c = 0; c < cnt; ++c) {
                EPoint p; p.name(names[c]);
                SnapPoint sp; sp.name = names[c]; sp.x = gen_float_bits(r); sp.y = gen_float_bits(r); sp.z = gen_float_bits(r); sp.r = gen_float_bits(r);
                p.x(bits2f(sp.x)); p.y(bits2f(sp.y)); p.z(bits2f(sp.z)); p.residual(bits2f(sp.r));
                pts.point(p);
                ef.pts.push_back(sp);
            }
            fr.add(pts);
        }
        lastCol.push_back(fr);
        lastColExpect.push_back(ef);
    }
    std::vector<SnapFrame> handed;
    for (auto &f : lastCol) handed.push_back(snap_frame(f));
    Snapshot before = cur;
    Expectation ex = analog ? expect_col_analog(before, handed) : expect_col_point(before, handed);
    std::vector<uint8_t> preImg;
    if (on(ORC_C10)) preImg = preImage();
    try { if (analog) obj->analog(lastCol); else obj->point(lastCol); }
    catch (...) { rec.threw = true; rec.exc = classify_current_exception(&lastWhat); }
    cur = take_snapshot(*obj);
    rec.aux = static_cast<uint64_t>(ex.kind) * 16 + static_cast<uint64_t>(dev);
    const char *which = analog ? "col-analog" : "col-point";
    if (on(ORC_C07)) {
        if (ex.kind == EX_MUST_REFUSE && !rec.threw) violate("C07", std::string(which) + "/accepted-deviating", std::string("column accepted although: ") + ex.why);
        else if (ex.kind == EX_MUST_REFUSE && !ex.classes.count(rec.exc)) violate("C07", std::string(which) + "/refusal-class/" + rec.exc, "column refused with " + rec.exc + " for: " + ex.why);
        else if (ex.kind == EX_MUST_ACCEPT && rec.threw && !premise_broken) {
            if (gen >= 1 && lastWhat.find("could not find") != std::string::npos) violate("C07", std::string("refused-conforming/loaded-file-lacks-parameter/") + op_name(st.op), "a conforming column was refused on an object loaded from a file (" + lastWhat + ")");
            else violate("C07", std::string(which) + "/refused-conforming/" + rec.exc, "a column matching the data set was refused (" + rec.exc + ": " + lastWhat + ")");
        }
    }
    if (ex.kind == EX_MUST_REFUSE) probe("col.must_refuse"); else if (ex.kind == EX_MUST_ACCEPT) probe("col.must_accept"); else probe("col.dont_care");
    if (!rec.threw && ex.kind != EX_MUST_ACCEPT) { premise_broken = true; res.st.premise_broken++; }
    if (!stop && !rec.threw && ex.kind == EX_MUST_ACCEPT && (on(ORC_C06) || on(ORC_C08))) {
        // every frame changes by exactly that column, added exactly once
        const char *prop = on(ORC_C06) ? "C06" : "C08";
        if (cur.frames.size() != before.frames.size()) violate(prop, std::string(which) + "/frame-count", "column op changed the number of frames");
        for (size_t f = 0; !stop && f < cur.frames.size(); ++f) {
            SnapFrame exp = before.frames[f];
            if (analog) { for (size_t k = 0; k < exp.subs.size(); ++k) for (auto &c : lastColExpect[f].subs[k]) exp.subs[k].push_back(c); }
            else for (auto &p : lastColExpect[f].pts) exp.pts.push_back(p);
            std::string fc, d = diff_frame(exp, cur.frames[f], &fc);
            if (!d.empty()) violate(prop, std::string(which) + "/not-exactly-one-column/" + fc, "frame " + tos(f) + " after the column op: " + d);
        }
    }
    if (!rec.threw && model.size() == before.frames.size() && lastColExpect.size() == model.size())
        for (size_t f = 0; f < model.size(); ++f) {
            if (analog) { for (size_t k = 0; k < model[f].subs.size() && k < lastColExpect[f].subs.size(); ++k) for (auto &c : lastColExpect[f].subs[k]) model[f].subs[k].push_back(c); }
            else for (auto &p : lastColExpect[f].pts) model[f].pts.push_back(p);
        }
    afterCall(st, rec.threw, rec.exc, before, true);
    if (!stop && rec.threw && on(ORC_C10)) {
        std::vector<uint8_t> post = preImage();
        if (preImg != post) violate("C10", std::string("save-differs-after-throw/") + op_name(st.op), "a save after the refused call differs from a save before it");
    }
}

void World::doColMutate(const Step &st, StepRecord &rec) {
    if (lastCol.empty() || st.i.empty()) { rec.skipped = true; return; }
    Rng r(static_cast<uint64_t>(st.i[0]));
    Snapshot before = cur;
    try {
        EFrame &f = lastCol[r.below(lastCol.size())];
        if (f.points().nbPoints()) f.points_nonConst().point_nonConst(0).z(777.0f);
        if (f.analogs().nbSubframes() && f.analogs().subframe(0).nbChannels()) f.analogs_nonConst().subframe_nonConst(0).channel_nonConst(0).data(777.0f);
    } catch (...) { rec.exc = "caller:" + classify_current_exception(); }
    if (!obj) return;
    cur = take_snapshot(*obj);
    if (on(ORC_C08)) {
        std::string fc, d = diff_snapshots(before, cur, DiffOpts(), &fc);
        if (!d.empty()) violate("C08", "caller-mutation-visible/column/" + fc, "changing the caller's column frames changed the stored data: " + d);
    }
    probe("caller.mutate_col");
}

void World::doSave(const Step &st, StepRecord &rec) {
    if (!obj || st.i.empty()) { rec.skipped = true; return; }
    std::string path = pathFor(st.i[0] % 8);
    Snapshot before = cur;
    std::vector<uint8_t> refImg;
    bool haveRef = false;
    const FaultSpec &fs = st.fault;
    if (on(ORC_C15) && (fs.any_hard() || fs.any_benign())) {
        std::string rp = path + ".ref";
        try {
            disk_begin_op(FaultSpec());
            obj->write(rp);
            disk_end_op();
            disk_get(rp, refImg);
            haveRef = true;
        } catch (...) {
            disk_end_op();
            std::string exc = classify_current_exception();
            violate("C15", "spurious-throw/" + exc, "fault-free save threw " + exc);
        }
        disk_remove(rp);
        if (stop) return;
    }
    // what the destination holds before the save: nothing (i1 absent or 0), whatever an earlier save of this run left
    // there (i1 = -1), or i1 bytes of seeded junk (a longer or shorter file of somebody else)
    int64_t stale = (st.i.size() > 1 && !fs.dest_is_dir) ? st.i[1] : 0;
    if (stale == 0) disk_remove(path);
    else if (stale > 0) {
        std::vector<uint8_t> junk(static_cast<size_t>(stale > (1 << 20) ? (1 << 20) : stale));
        Rng jr(static_cast<uint64_t>(stale) * 0x9e3779b97f4a7c15ull + 3);
        for (auto &b : junk) b = static_cast<uint8_t>(jr.below(255) + 1); // no zero bytes: stale content is never mistaken for padding
        disk_put(path, junk);
        probe("save.over-a-stale-file");
    } else probe("save.over-the-previous-save");
    if (fs.dest_is_dir) disk_set_dir(path, true);
    std::vector<WriteRec> trace;
    disk_begin_op(fs);
    std::string what;
    try { obj->write(path); } catch (...) { rec.threw = true; rec.exc = classify_current_exception(&what); }
    OpStats os = disk_end_op(&trace);
    if (fs.dest_is_dir) disk_set_dir(path, false);
    res.st.saves++;
    res.st.io_calls += os.write_calls + os.seeks + os.opens;
    res.st.faults_fired += os.f_open_fail + os.f_budget + os.f_eio + os.f_short_write + os.f_eintr_w + os.f_seek;
    if (os.hard_fired) res.st.hard_fired++;
    std::vector<uint8_t> img;
    bool exists = disk_get(path, img);
    rec.image_hash = exists ? hash_bytes(img.data(), img.size()) : 0;
    cur = take_snapshot(*obj);

    if (on(ORC_C15)) {
        const char *kind = os.f_open_fail ? "open" : os.f_budget ? "budget" : os.f_eio ? "write-call" : os.f_seek ? (fs.fail_seek_call == 0 ? "not-seekable" : "seek-call") : "none";
        if (os.hard_fired && !rec.threw)
            violate("C15", std::string("silent/") + kind, std::string("save returned normally although the OS refused (") + kind + " fault, " + tos(os.bytes_accepted) + " bytes accepted" + (haveRef ? " of " + tos(refImg.size()) : "") + ")");
        else if (os.hard_fired && rec.exc != "ios_failure")
            violate("C15", std::string("class/") + rec.exc, "failed save reported as " + rec.exc + ", documented: I/O failure");
        else if (!os.hard_fired && rec.threw)
            violate("C15", "spurious-throw/" + rec.exc, "save threw " + rec.exc + " (" + what + ") although every byte was accepted");
        else if (!os.hard_fired && haveRef && img != refImg)
            violate("C15", "benign-fault-changed-image", "short writes / EINTR changed the bytes that reached the disk");
        else if (!rec.threw && !exists)
            violate("C15", "silent/no-file-at-destination", "save returned normally but there is no file at the destination");
        else if (!rec.threw && fs.dest_is_dir)
            violate("C15", "silent/destination-is-a-directory", "save returned normally although the destination path is a directory");
    }
    {
        uint64_t uoff = 0;
        bool undef = disk_take_undefined_write(&uoff);
        if (undef && !stop && on(ORC_C14)) {
            std::string region = uoff < 512 ? ((uoff / 2 + 1 >= 199 && uoff / 2 + 1 <= 234) ? "header.event-labels" : "header.word" + tos(uoff / 2 + 1)) : "body";
            violate("C14", "undefined-bytes-written/" + region, "a byte handed to the OS write call at file offset " + tos(uoff) + " is not defined (memcheck)");
        }
    }
    if (!stop && on(ORC_C14) && stale != 0 && !rec.threw && !os.hard_fired && exists) {
        // the file is a function of the object, not of what the destination held before
        std::string fp = path + ".fresh";
        std::vector<uint8_t> fresh;
        disk_remove(fp);
        bool ok = true;
        disk_begin_op(FaultSpec());
        try { obj->write(fp); } catch (...) { ok = false; }
        disk_end_op();
        if (ok && disk_get(fp, fresh) && fresh != img) {
            size_t k = 0;
            while (k < fresh.size() && k < img.size() && fresh[k] == img[k]) ++k;
            violate("C14", "destination-history-changes-file", "the same object saved over an existing file (" + tos(img.size()) + " bytes result) and to a fresh path (" + tos(fresh.size()) + " bytes) differ, first at offset " + tos(k));
        }
        disk_remove(fp);
        (void)disk_take_undefined_write(nullptr);
    }
    if (!stop && on(ORC_C14)) {
        std::string fc, d = diff_snapshots(before, cur, DiffOpts(), &fc);
        if (!d.empty()) violate("C14", "save-changed-object/" + fc, "saving changed the object: " + d);
        if (!rec.threw && !os.hard_fired && exists) {
            if (last_save_version == version && last_save_hash != rec.image_hash)
                violate("C14", "repeat-save-differs", "two saves of the unchanged object produced different bytes");
            last_save_version = version; last_save_hash = rec.image_hash;
        }
    }
    bool good = !rec.threw && !os.hard_fired && exists;
    if (good && premise_broken) probe("save.premise-broken");
    if (good && !stop && on(ORC_C03) && !premise_broken && frames_complete(cur) && within_param_capacity(cur)) {
        std::string fc, d = c03_check(img, cur, &fc);
        if (!d.empty()) violate("C03", fc + (api_lineage ? "/created" : "/loaded"), d);
    }
    if (good && !stop && on(ORC_C04) && pristine && gen >= 2 && loaded_from >= 0) {
        if (saved[static_cast<size_t>(loaded_from)].image != img)
            violate("C04", "resave-not-byte-identical", "saving a loaded-and-unchanged object again produced different bytes (generation " + tos(gen) + ")");
        else probe("c04.bytes-equal");
    }
    if (good) {
        Saved sv;
        sv.path = path; sv.snap = cur; sv.image = img; sv.writer_gen = gen; sv.writer_pristine = pristine; sv.source = loaded_from; sv.premise_broken = premise_broken; sv.refusedTaint = refusedTaint; sv.complete = (frames_complete(cur) && (on(ORC_C17) || within_param_capacity(cur))) || (pristine && gen >= 1); /* content that came from a file and was not edited is a valid C04 subject whatever its labels look like */ sv.model = model; sv.api_lineage = api_lineage;
        // replace an older entry for the same path
        bool rep = false;
        for (auto &s : saved) if (s.path == path) { s = sv; rep = true; break; }
        if (!rep) saved.push_back(sv);
        if (cfg.keep_images) { res.images.push_back(img); res.traces.push_back(trace); res.save_snaps.push_back(cur); }
    } else {
        for (size_t i = 0; i < saved.size(); ++i) if (saved[i].path == path) { saved.erase(saved.begin() + static_cast<long>(i)); if (loaded_from == static_cast<int>(i)) loaded_from = -1; else if (loaded_from > static_cast<int>(i)) --loaded_from; break; }
    }
}

void World::doReload(const Step &st, StepRecord &rec) {
    if (saved.empty() || st.i.empty()) { rec.skipped = true; return; }
    // only files written by this run's saves (not the external input)
    std::vector<size_t> cand;
    for (size_t i = 0; i < saved.size(); ++i) if (saved[i].writer_gen >= 0) cand.push_back(i);
    if (cand.empty()) { rec.skipped = true; return; }
    size_t si = st.i[0] < 0 ? cand.back() : cand[static_cast<size_t>(st.i[0]) % cand.size()];
    Saved sv = saved[si];
    std::string what;
    bool ok = loadFrom(sv.path, st.fault, rec, &what);
    res.st.reloads++;
    bool api = sv.writer_gen == 0;
    // (C17 also loads files that sit at a limit only a file can reach - last frame number, group descriptions - and saves them)
    const char *prop = on(ORC_C17) ? "C17" : api ? "C01" : "C04";
    bool enabled = on(ORC_C17) || (api ? on(ORC_C01) : on(ORC_C04));
    if (sv.premise_broken || !sv.complete) { enabled = false; probe("reload.premise-broken-or-incomplete"); }
    if (!ok) {
        // The budgets armed around every load belong to C16. When the data reader was stopped although it stayed within the
        // counts the file claims, and those are exactly the counts of the object that was saved (e.g. thousands of empty
        // sub-frames per frame: memory without bytes in the file), the simulator's limit was hit, not a property.
        const BudgetState &bs = budget_state();
        if ((rec.exc == "budget_heap" || rec.exc == "budget_read") && bs.in_data && std::strstr(bs.kind, "beyond") == nullptr) {
            // (a sub-frame without channels carries no sample and no byte in the file: their number is not content)
            const ClaimedCounts &cc = bs.claimed;
            bool same = cc.frames == sv.snap.frames.size();
            for (const SnapFrame &fr : sv.snap.frames) {
                if (!same) break;
                same = fr.pts.size() == cc.points && (cc.channels == 0 || fr.subs.size() == cc.subframes);
                for (const auto &sub : fr.subs) if (sub.size() != cc.channels) same = false;
            }
            if (same) { probe("reload.stopped-by-simulator-budget"); return; }
        }
        if (enabled) violate(prop, "reload-failed/" + rec.exc, "a file the library saved does not load back: " + rec.exc + " (" + what + ")");
        return;
    }
    cur = take_snapshot(*obj);
    gen = sv.writer_gen + 1;
    if (!api && !sv.writer_pristine) gen = 1; // an edited object starts a new lineage
    if (gen < 1) gen = 1;
    pristine = true;
    loaded_from = static_cast<int>(si);
    api_lineage = sv.api_lineage;
    premise_broken = sv.premise_broken; // a file written from an out-of-premise object stays out of premise
    refusedTaint = sv.refusedTaint;
    model = cur.frames;
    if (enabled && (api || sv.writer_pristine)) {
        DiffOpts o;
        o.upper_names = true; o.skip_data_start = true; o.skip_prologue = true; o.ignore_empty_subframes = true;
        o.skip_reserved_words = true; // the statements list counts, frame range, rates and events, not the reserved words
        if (!api) o.skip_file_position = true;
        if (sv.snap.h.e1 != cur.h.e1 || sv.snap.h.e4 != cur.h.e4) {
            probe("reserved-header-words-not-carried-through");
            if (res.notes.size() < 3) res.notes.push_back("NOTE reserved header words (emptyBlock1/4) change across save -> restart: " + tos(sv.snap.h.e1) + " -> " + tos(cur.h.e1) + " (outside the statement of C04; not a violation)");
        }
        std::string fc, d = diff_snapshots(sv.snap, cur, o, &fc);
        if (!d.empty()) violate(prop, "roundtrip/" + facet_with_values(fc, d), "content after reload differs from content at save: " + d);
        else probe("roundtrip.equal");
        if (!stop && api && sv.model.size() == cur.frames.size()) {
            // ... and from what the caller assembled (raw values, never read back through the library)
            for (size_t f = 0; f < sv.model.size(); ++f) {
                std::string f2, d2 = diff_frame(sv.model[f], cur.frames[f], &f2, true);
                if (!d2.empty()) { violate(prop, "assembled-vs-reloaded/" + f2, "frame " + tos(f) + " after reload differs from what the caller assembled: " + d2); break; }
            }
        }
    }
    { std::string f; if (!check_c05(cur, true, &f).empty()) i5 = false; }
    if (!stop && on(ORC_C05) && !api) { /* a reload is a successful public call too */ }
    if (!stop && on(ORC_C05) && !premise_broken) {
        std::string facet, d = check_c05(cur, i5, &facet);
        if (!d.empty()) violate("C05", facet + "/RELOAD" + (sv.refusedTaint.empty() ? std::string() : "/after-refused-call-changed-object:" + sv.refusedTaint), d);
    }
}

void World::doPrint(const Step &st, StepRecord &rec) {
    (void)st;
    if (!obj) { rec.skipped = true; return; }
    if (!cfg.capture_print) { rec.skipped = true; return; }
    std::ostringstream sink;
    std::streambuf *old = std::cout.rdbuf(sink.rdbuf());
    try { obj->print(); } catch (...) { rec.threw = true; rec.exc = classify_current_exception(&lastWhat); }
    std::cout.rdbuf(old);
    rec.aux = hash_str(sink.str());
    Snapshot before = cur;
    cur = take_snapshot(*obj);
    if (on(ORC_C14) || on(ORC_C10)) {
        std::string fc, d = diff_snapshots(before, cur, DiffOpts(), &fc);
        if (!d.empty()) violate("C14", "print-changed-object/" + fc, d);
    }
}

void World::run() {
    alloc_set_fill_seed(plan.fill_seed);
    disk_mkdirs(disk_root() + "/" + cfg.actor);
    obj.reset(new ezc3d::c3d());
    cur = take_snapshot(*obj);
    int prevOp = -1;
    for (stepIdx = 0; stepIdx < static_cast<int>(plan.steps.size()) && !stop; ++stepIdx) {
        const Step &st = plan.steps[static_cast<size_t>(stepIdx)];
        if (cfg.yield_between_steps) yield_point(Y_STEP);
        StepRecord rec;
        rec.op = st.op;
        switch (st.op) {
        case OP_NEW: doNew(); cur = take_snapshot(*obj); break;
        case OP_LOAD: doLoad(st, rec); break;
        case OP_DECL_POINT: doDecl(st, rec, false); break;
        case OP_DECL_ANALOG: doDecl(st, rec, true); break;
        case OP_SET_RATE: doRate(st, rec); break;
        case OP_PARAM: case OP_PARAM_SETBAD: doParam(st, rec); break;
        case OP_LOCK_GROUP: doLock(st, rec, true); break;
        case OP_UNLOCK_GROUP: doLock(st, rec, false); break;
        case OP_FRAME_BUILD: doFrameBuild(st, rec); break;
        case OP_FRAME_SUBMIT: doFrameSubmit(st, rec); break;
        case OP_FRAME_MUTATE: doFrameMutate(st, rec); break;
        case OP_COL_POINT: doCol(st, rec, false); break;
        case OP_COL_ANALOG: doCol(st, rec, true); break;
        case OP_COL_MUTATE: doColMutate(st, rec); break;
        case OP_SAVE: doSave(st, rec); break;
        case OP_RELOAD: doReload(st, rec); break;
        case OP_PRINT: doPrint(st, rec); break;
        case OP_FILL_GAPS: doFillGaps(st, rec); break;
        case OP_BULK_FRAMES: doBulk(st, rec); break;
        case OP_PARAM_EDIT: doParamEdit(st, rec); break;
        case OP_FRAME_DUP: doFrameDup(st, rec); break;
        case OP_LOOKUP: doLookup(st, rec); break;
        case OP_ADOPT: doAdopt(st, rec); break;
        default: rec.skipped = true; break;
        }
        rec.snap_hash = obj ? hash_snapshot(cur) : 0;
        res.st.steps++;
        if (!rec.skipped) {
            if (prevOp >= 0) res.st.bigrams[std::make_pair(prevOp, st.op)]++;
            prevOp = st.op;
        }
        noteState();
        uint64_t h[6] = {static_cast<uint64_t>(rec.op), static_cast<uint64_t>(rec.skipped), static_cast<uint64_t>(rec.threw), rec.snap_hash, rec.image_hash, rec.aux};
        th = hash_bytes(h, sizeof h, th);
        th = hash_str(rec.exc, th);
        res.recs.push_back(rec);
    }
    res.has_object = static_cast<bool>(obj);
    if (obj) res.final_snap = cur;
    for (auto &v : res.viol) th = hash_str(v.key, th);
    res.trace_hash = th;
    obj.reset(); // destruction is part of every history (C13)
}

} // namespace

void donor_make(uint64_t seed) { donor_make_impl(seed); }
void donor_drop() { donor_drop_impl(); }

RunResult run_plan(const Plan &plan, const ExecCfg &cfg) {
    RunResult r;
    World w(plan, cfg, r);
    w.run();
    return r;
}

} // namespace sim
