// A plan is explicit data: everything a run does is in it (or derived from seeds stored in it).
// Steps that index into state are interpreted modulo what exists when the step runs, so a
// shrunk plan is still executable; faults ride on the step they strike.
#pragma once
#include "simdisk.h"
#include <cstdint>
#include <string>
#include <vector>

namespace sim {

enum Op : int {
    OP_NEW = 0,        // drop the object, create an empty one
    OP_LOAD,           // s0 = source ("vendor:<name>" | "gen:<layout seed>" | "image") ; restart from a file
    OP_DECL_POINT,     // s0 = name
    OP_DECL_ANALOG,    // s0 = name
    OP_SET_RATE,       // i0 = 0 point / 1 analog, i1 = float bits
    OP_PARAM,          // s0 group, s1 name, s2 desc, s3.. string values ; i0 type(0 none,1 int,2 float,3 str), i1 lock, i2 ndims(-1: default), dims.., nvals, vals..
    OP_PARAM_SETBAD,   // caller-side Parameter::set with dims inconsistent with the data (C09/C10): same layout as OP_PARAM
    OP_LOCK_GROUP,     // s0 group
    OP_UNLOCK_GROUP,   // s0 group
    OP_FRAME_BUILD,    // i0 slot, i1 deviation, i2 value seed, i3 sub-frame override (0: from state)
    OP_FRAME_SUBMIT,   // i0 slot, i1 index mode (0 append,1 existing,2 count,3 count+k), i2 raw index / k
    OP_FRAME_MUTATE,   // i0 slot, i1 kind, i2 seed : the caller changes ITS OWN frame object
    OP_COL_POINT,      // i0 deviation, i1 value seed ; s.. names of the new columns
    OP_COL_ANALOG,     // i0 deviation, i1 value seed ; s.. names
    OP_COL_MUTATE,     // i0 seed : the caller changes the frame vector it handed to the last column op
    OP_SAVE,           // i0 path id, i1 what the destination holds before (absent/0 nothing, -1 the previous save of that path, n>0 a stale file of n junk bytes) ; fault spec attached
    OP_RELOAD,         // i0 path id (modulo saved paths): destroy the object, construct from that file
    OP_PRINT,
    OP_FILL_GAPS,      // i0 value seed : replace every empty stored frame by a conforming one ("complete frames")
    OP_BULK_FRAMES,    // i0 count, i1 value seed : append count conforming frames (no per-frame observation)
    OP_FRAME_DUP,      // i0 source frame (mod), i1 index mode, i2 raw : hand one of the object's OWN stored frames back to frame() (duplicate it)
    OP_PARAM_EDIT,     // i0 group (mod), i1 parameter (mod), i2 edit kind, i3 target selector ; s0 new description, s1 new group name : copy a parameter OUT of the object, edit it through its setters, hand it back (kind 3: hand the object's own parameter, by reference, to another or a new group)
    OP_LOOKUP,         // i0 seed : by-name getters (point, channel, group, parameter and their Idx forms) on names the object holds and on one it does not
    OP_ADOPT,          // i0 seed : C18 only - take frames out of ANOTHER object (the donor every thread of the case reads) and hand them, by reference, to frame(); on an empty undeclared object first declare the donor's names and append all its frames
    OP_NOPS
};
const char *op_name(int op);
int op_from_name(const std::string &s);

enum FrameDeviation : int {
    DEV_NONE = 0, DEV_POINT_MISSING, DEV_POINT_EXTRA, DEV_POINT_RENAMED, DEV_POINT_DUP, DEV_CHAN_MISSING, DEV_CHAN_EXTRA,
    DEV_SUB_FEWER, DEV_SUB_MORE, DEV_NO_POINTS, DEV_NO_ANALOGS, DEV_PERMUTED, DEV_EMPTY, DEV_N
};
enum ColDeviation : int {
    CDEV_NONE = 0, CDEV_FRAMES_FEWER, CDEV_FRAMES_MORE, CDEV_NO_FRAMES, CDEV_DUP_FIRST, CDEV_DUP_LATER, CDEV_EMPTY_COL,
    CDEV_SUB_FEWER, CDEV_SUB_MORE, CDEV_SHORT_LATER_FRAME, CDEV_SHORT_LATER_SUB, CDEV_N
};

struct Step {
    int op = OP_NEW;
    std::vector<int64_t> i;
    std::vector<std::string> s;
    FaultSpec fault; // only meaningful for OP_SAVE / OP_LOAD / OP_RELOAD
};

struct Plan {
    std::string prop;          // property mode this plan was generated for
    std::string tag;           // short label that becomes part of violation keys (e.g. which capacity limit)
    uint64_t run_seed = 0;     // for the record (a plan is executable without it)
    uint64_t fill_seed = 1;    // allocator epoch
    uint64_t flags = 0;        // mode-specific switches
    std::vector<Step> steps;
    // mode-specific payloads
    std::vector<uint8_t> image;          // C16: the (damaged) file to restart from
    std::vector<std::string> notes;      // free text carried into the replay file
};

std::string plan_to_text(const Plan &p);
bool plan_from_text(const std::string &text, Plan &p, std::string *err = nullptr);
std::string step_to_text(const Step &s);

} // namespace sim
