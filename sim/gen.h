// Seeded generation of histories (plans). Generation never looks at the object: every argument
// that depends on state is interpreted when the step runs.
#pragma once
#include "plan.h"
#include "prng.h"

namespace sim {

struct Profile {
    unsigned max_points = 6, max_channels = 5, max_subframes = 4, max_frames = 10;
    unsigned pct_big = 3;            // chance of a large shape (up to 255 points / channels, hundreds of frames)
    unsigned pct_shuffled_setup = 30; // declarations / rates / frames in fully random order
    unsigned pct_dev_frame = 10;     // a frame step deviates from the declared shape
    unsigned pct_dev_col = 15;
    unsigned pct_extend = 10;        // indexed submit beyond the end
    unsigned pct_replace = 20;
    unsigned n_custom_params = 3;    // up to
    unsigned pct_bad_param = 0;      // unnamed / untyped / inconsistent-shape parameters
    unsigned pct_locks = 20;
    unsigned pct_cols = 20;
    unsigned pct_decl_after_data = 15;
    unsigned pct_caller_mutation = 0;
    unsigned pct_resubmit = 0;       // hand the same frame object over again
    unsigned pct_mid_save = 10, pct_mid_reload = 10, pct_print = 5;
    unsigned max_desc = 255;
    bool fill_gaps_before_save = true;
    bool int16_only = true;          // integer parameter values within the 16-bit capacity
    bool final_save_reload = false;
    unsigned benign_pct = 0;         // benign I/O faults on saves and loads (percent of calls)
    bool analog_only_ok = true;
    unsigned pct_space_names = 0;    // group / parameter / point names that end in blanks (excluded where round trips are compared)
};

std::string gen_name(Rng &r, unsigned maxLen = 12);
std::string gen_text(Rng &r, unsigned len);
Step make_param_step(Rng &r, const Profile &pf, const std::string &group, const std::string &name, bool allowBad);
FaultSpec benign_faults(Rng &r, unsigned pct);
void gen_history(Rng &r, const Profile &pf, Plan &plan);

} // namespace sim
