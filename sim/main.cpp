// simc3d: worker / gate / replay / selftest entry points of the simulator.
#include "cases.h"
#include "seams.h"
#include "simdisk.h"

#include <algorithm>
#include <cstdio>
#include <cstdlib>
#include <cstring>
#include <ctime>
#include <cxxabi.h>
#include <fcntl.h>
#include <fstream>
#include <iostream>
#include <set>
#include <sstream>
#include <sys/mman.h>
#include <sys/wait.h>
#include <unistd.h>

#if defined(SIM_ASAN)
extern "C" __attribute__((used)) const char *__asan_default_options() {
    return "exitcode=77:detect_leaks=0:alloc_dealloc_mismatch=1:handle_abort=1:abort_on_error=0:max_allocation_size_mb=256:allocator_may_return_null=0:detect_stack_use_after_return=0:symbolize=1";
}
#endif
#if defined(SIM_TSAN)
extern "C" __attribute__((used)) const char *__tsan_default_options() {
    return "exitcode=66:halt_on_error=1:report_signal_unsafe=0:second_deadlock_stack=0";
}
#endif

using namespace sim;

namespace {
template <class T> std::string tos(const T &v) { std::ostringstream o; o << v; return o.str(); }

std::string arg(int argc, char **argv, const char *name, const char *def = "") {
    for (int i = 1; i + 1 < argc; ++i) if (std::strcmp(argv[i], name) == 0) return argv[i + 1];
    return def;
}
bool flag(int argc, char **argv, const char *name) {
    for (int i = 1; i < argc; ++i) if (std::strcmp(argv[i], name) == 0) return true;
    return false;
}
std::string oneline(std::string s) {
    for (auto &ch : s) if (ch == '\n' || ch == '\r') ch = ' ';
    if (s.size() > 600) s = s.substr(0, 600) + "...";
    return s;
}

void print_result(const Case &c, const CaseResult &r) {
    std::printf("RES i=%llu seed=%llu th=%016llx img=%016llx nt=%d ev=%llu steps=%llu mut=%llu ref=%llu saves=%llu reloads=%llu faults=%llu hard=%llu pb=%llu io=%llu viol=%zu",
                static_cast<unsigned long long>(c.index), static_cast<unsigned long long>(c.run_seed), static_cast<unsigned long long>(r.trace_hash),
                static_cast<unsigned long long>(r.img_hash), r.nontrivial ? 1 : 0, static_cast<unsigned long long>(r.evaluations),
                static_cast<unsigned long long>(r.st.steps), static_cast<unsigned long long>(r.st.mutating_ok), static_cast<unsigned long long>(r.st.refused),
                static_cast<unsigned long long>(r.st.saves), static_cast<unsigned long long>(r.st.reloads), static_cast<unsigned long long>(r.st.faults_fired),
                static_cast<unsigned long long>(r.st.hard_fired), static_cast<unsigned long long>(r.st.premise_broken),
                static_cast<unsigned long long>(r.st.io_calls + r.st.read_seam_calls), r.viol.size());
    for (auto &kv : r.extra) std::printf(" x.%s=%llu", kv.first.c_str(), static_cast<unsigned long long>(kv.second));
    std::printf("\n");
    for (auto &v : r.viol)
        std::printf("VIOL i=%llu alt=%d prop=%s key=%s step=%d detail=%s\n", static_cast<unsigned long long>(c.index), c.prop == "C16" ? v.step : r.failing_alt, v.prop.c_str(), v.key.c_str(), v.step, oneline(v.detail).c_str());
    for (auto &n : r.notes) std::printf("%s (case %llu)\n", oneline(n).c_str(), static_cast<unsigned long long>(c.index));
}

// ------------------------------------------------------------------------------------------
// running a case in a forked child and classifying however it ends

struct Outcome {
    std::string kind; // ok | viol | crash | timeout
    std::set<std::string> keys;
    std::string firstKey, detail, th;
    int failing_alt = -1;
    std::string sig() const { std::string s = kind + ":" + th; for (auto &k : keys) s += "|" + k; return s; }
};

std::string first_ezc3d_fn(const std::string &text, size_t from, size_t to) {
    size_t p = from;
    while (true) {
        p = text.find(" in ezc3d::", p);
        if (p == std::string::npos || p >= to) return "?";
        size_t b = p + 4;
        size_t e = text.find_first_of("([ \n", b);
        std::string fn = text.substr(b, e - b);
        return fn;
    }
}

Outcome classify(const std::string &prop, const std::string &out, int status) {
    Outcome o;
    if (WIFEXITED(status) && (WEXITSTATUS(status) == 0 || WEXITSTATUS(status) == 1)) {
        std::istringstream in(out);
        std::string line;
        while (std::getline(in, line)) {
            if (line.compare(0, 4, "RES ") == 0) { size_t p = line.find(" th="); if (p != std::string::npos) o.th = line.substr(p + 4, 16); }
            if (line.compare(0, 5, "VIOL ") == 0) {
                size_t k = line.find(" key="), s = line.find(" step=", k), d = line.find(" detail=", k), a = line.find(" alt=");
                if (k == std::string::npos) continue;
                std::string key = line.substr(k + 5, s - (k + 5));
                if (o.keys.empty()) { o.firstKey = key; if (d != std::string::npos) o.detail = line.substr(d + 8); if (a != std::string::npos) o.failing_alt = std::atoi(line.c_str() + a + 5); }
                o.keys.insert(key);
            }
        }
        o.kind = o.keys.empty() ? "ok" : "viol";
        return o;
    }
    o.kind = "crash";
    std::string cls = "?", fn = "?";
    if (WIFSIGNALED(status)) {
        int sg = WTERMSIG(status);
        if (sg == SIGALRM || sg == SIGKILL || sg == SIGXCPU) { o.kind = "timeout"; cls = "watchdog"; }
        else cls = "signal" + tos(sg);
    } else if (WEXITSTATUS(status) == 70) {
        size_t p = out.rfind("CRASH sig=");
        if (p != std::string::npos) {
            cls = "sig" + out.substr(p + 10, out.find(' ', p + 10) - (p + 10));
            if (cls == "sig14") { o.kind = "timeout"; cls = "watchdog"; }
            size_t f = out.find("fn=", p);
            if (f != std::string::npos) {
                fn = out.substr(f + 3, out.find(' ', f + 3) - (f + 3));
                int st = 0;
                char *dem = abi::__cxa_demangle(fn.c_str(), nullptr, nullptr, &st);
                if (st == 0 && dem) { fn = dem; size_t q = fn.find('('); if (q != std::string::npos) fn.resize(q); }
                std::free(dem);
            }
        }
    } else if (WEXITSTATUS(status) == 77) {
        size_t p = out.find("ERROR: AddressSanitizer: ");
        if (p != std::string::npos) {
            size_t b = p + 25, e = out.find_first_of(" \n:(", b);
            cls = "asan:" + out.substr(b, e - b);
            fn = first_ezc3d_fn(out, p, out.size());
            if (cls == "asan:requested" || cls == "asan:allocation-size-too-big" || cls == "asan:out-of-memory" || cls == "asan:calloc-overflow") {
                // the instrumented build's way of saying "allocation out of proportion": same key as the plain build's heap budget,
                // named by the section reader (outermost ezc3d frame below the constructor)
                std::string outer = "?";
                size_t q = p;
                while ((q = out.find(" in ezc3d::", q)) != std::string::npos) {
                    size_t b2 = q + 4, e2 = out.find_first_of("( \n", b2);
                    std::string f2 = out.substr(b2, e2 - b2); { size_t br = f2.find('['); if (br != std::string::npos) f2.resize(br); }
                    if (f2 != "ezc3d::c3d::c3d") outer = f2; else break;
                    q = e2;
                }
                Outcome ob; ob.kind = "viol";
                std::string key = prop + "/budget/heap/" + outer + "/" + fn;
                ob.keys.insert(key); ob.firstKey = key;
                ob.detail = oneline(out.substr(p, 300));
                size_t a2 = out.rfind("PROGRESS alt=");
                if (a2 != std::string::npos) ob.failing_alt = std::atoi(out.c_str() + a2 + 13);
                return ob;
            }
        } else cls = "asan:?";
    } else if (WEXITSTATUS(status) == 66) {
        size_t p = out.find("WARNING: ThreadSanitizer: ");
        cls = "tsan";
        if (p != std::string::npos) {
            size_t b = p + 26, e = out.find_first_of("(\n", b);
            cls = "tsan:" + out.substr(b, e - b);
            while (!cls.empty() && cls.back() == ' ') cls.pop_back();
            for (auto &ch : cls) if (ch == ' ') ch = '-';
            // which of the two accesses TSan shows first (and how far it can symbolise them) is not stable from run to
            // run, so the key names the report class only; the functions go into the detail text
            fn = "-";
        }
    } else if (WEXITSTATUS(status) == 71) { cls = "sig?"; // the crash handler itself crashed (heap too broken to report)
    } else cls = "exit" + tos(WEXITSTATUS(status));
    std::string key = prop + "/crash/" + cls + "/" + fn;
    if (o.kind == "timeout") key = prop + "/budget/watchdog/" + fn;
    o.keys.insert(key); o.firstKey = key;
    size_t p = out.find("ERROR: ");
    if (p == std::string::npos) p = out.find("WARNING: ThreadSanitizer");
    if (p == std::string::npos) p = out.rfind("CRASH");
    o.detail = p == std::string::npos ? "process ended abnormally" : oneline(out.substr(p, 400));
    // which alternative was being executed (progress marker)
    size_t a = out.rfind("PROGRESS alt=");
    if (a != std::string::npos) o.failing_alt = std::atoi(out.c_str() + a + 13);
    return o;
}

Outcome run_in_child(const Case &c, unsigned timeout_s = 40) {
    int pfd[2];
    if (pipe(pfd) != 0) { Outcome o; o.kind = "ok"; return o; }
    // shared progress word so that a crash inside alternative a is attributable
    uint64_t *prog = static_cast<uint64_t *>(mmap(nullptr, 4096, PROT_READ | PROT_WRITE, MAP_SHARED | MAP_ANONYMOUS, -1, 0));
    *prog = 0;
    std::fflush(stdout);
    pid_t pid = fork();
    if (pid == 0) {
        close(pfd[0]);
        dup2(pfd[1], 1);
        dup2(pfd[1], 2);
        close(pfd[1]);
        alarm(timeout_s);
        install_crash_handlers();
        CaseResult r = run_case(c, prog);
        print_result(c, r);
        std::fflush(stdout);
        _exit(r.viol.empty() ? 0 : 1);
    }
    close(pfd[1]);
    std::string out;
    char buf[65536];
    ssize_t n;
    while ((n = read(pfd[0], buf, sizeof buf)) > 0) { if (out.size() < (8u << 20)) out.append(buf, static_cast<size_t>(n)); }
    close(pfd[0]);
    int status = 0;
    waitpid(pid, &status, 0);
    Outcome o = classify(c.prop, out, status);
    if (o.kind == "crash" || o.kind == "timeout") if (*prog) o.failing_alt = static_cast<int>(*prog) - 1;
    munmap(prog, 4096);
    return o;
}

bool reproduces(const Case &c, const std::string &key) {
    Outcome o = run_in_child(c, 40);
    return o.keys.count(key) != 0;
}

// ddmin-like reduction of the steps of one plan under "same violation key"
static time_t g_shrink_deadline = 0;
static bool shrink_time_left() { return time(nullptr) < g_shrink_deadline; }

void shrink_plan(Case &c, size_t t, const std::string &key, int &runs) {
    std::vector<Step> &steps = c.plans[t].steps;
    size_t chunk = steps.size() / 2;
    while (chunk >= 1 && runs < 400 && shrink_time_left()) {
        bool removed = false;
        for (size_t start = 0; start < steps.size() && runs < 400 && shrink_time_left();) {
            size_t len = std::min(chunk, steps.size() - start);
            Case trial = c;
            std::vector<Step> &ts = trial.plans[t].steps;
            ts.erase(ts.begin() + static_cast<long>(start), ts.begin() + static_cast<long>(start + len));
            ++runs;
            if (reproduces(trial, key)) { c = trial; removed = true; }
            else start += len;
        }
        if (!removed || chunk == 1) { if (chunk == 1 && !removed) break; }
        if (chunk > 1) chunk /= 2; else if (!removed) break;
    }
}

void shrink_case(Case &c, const std::string &key, int failing_alt) {
    int runs = 0;
    g_shrink_deadline = time(nullptr) + 90; // minimisation is best effort within a wall-clock budget
    if (!c.alts.empty() && failing_alt >= 0 && failing_alt < static_cast<int>(c.alts.size())) {
        Case trial = c;
        trial.alts = {c.alts[static_cast<size_t>(failing_alt)]};
        trial.alt_labels = {static_cast<size_t>(failing_alt) < c.alt_labels.size() ? c.alt_labels[static_cast<size_t>(failing_alt)] : std::string()};
        ++runs;
        if (reproduces(trial, key)) c = trial;
        // drop individual damages
        for (size_t d = 0; c.alts.size() == 1 && d < c.alts[0].size() && c.alts[0].size() > 1;) {
            Case t2 = c;
            t2.alts[0].erase(t2.alts[0].begin() + static_cast<long>(d));
            ++runs;
            if (reproduces(t2, key)) c = t2; else ++d;
        }
    }
    // drop whole threads (C18)
    for (size_t t = 0; c.plans.size() > 2 && t < c.plans.size();) {
        Case t2 = c;
        t2.plans.erase(t2.plans.begin() + static_cast<long>(t));
        t2.sched.replay.clear();
        ++runs;
        if (reproduces(t2, key)) c = t2; else ++t;
    }
    for (size_t t = 0; t < c.plans.size(); ++t) shrink_plan(c, t, key, runs);
    // simplify: benign faults off, epochs down
    for (size_t t = 0; t < c.plans.size(); ++t)
        for (size_t k = 0; k < c.plans[t].steps.size() && runs < 500; ++k) {
            FaultSpec &f = c.plans[t].steps[k].fault;
            if (f.any_benign()) {
                Case t2 = c;
                FaultSpec &g = t2.plans[t].steps[k].fault;
                g.short_write_pct = g.eintr_pct = g.short_read_pct = 0; g.benign_seed = 0;
                ++runs;
                if (reproduces(t2, key)) c = t2;
            }
        }
    // argument shrinking: simpler values where the violation does not need the complicated ones
    for (size_t t = 0; t < c.plans.size(); ++t)
        for (size_t k = 0; k < c.plans[t].steps.size() && runs < 500 && shrink_time_left(); ++k) {
            Step &st0 = c.plans[t].steps[k];
            if ((st0.op == OP_PARAM || st0.op == OP_PARAM_EDIT) && !st0.s.empty()) {
                size_t di = st0.op == OP_PARAM ? 2 : 0;
                if (di < st0.s.size() && st0.s[di].size() > 3) {
                    Case t2 = c; t2.plans[t].steps[k].s[di] = st0.s[di].substr(0, 1); ++runs;
                    if (reproduces(t2, key)) c = t2;
                }
            }
            Step &st1 = c.plans[t].steps[k];
            if (st1.op == OP_PARAM && st1.s.size() > 3) { // string values: shorten each to one character
                Case t2 = c; bool changed = false;
                for (size_t q = 3; q < st1.s.size(); ++q) if (st1.s[q].size() > 1) { t2.plans[t].steps[k].s[q] = st1.s[q].substr(0, 1); changed = true; }
                if (changed) { ++runs; if (reproduces(t2, key)) c = t2; }
            }
            Step &st2 = c.plans[t].steps[k];
            if ((st2.op == OP_FRAME_BUILD && st2.i.size() > 2 && st2.i[2] != 1)) { Case t2 = c; t2.plans[t].steps[k].i[2] = 1; ++runs; if (reproduces(t2, key)) c = t2; }
            if ((st2.op == OP_COL_POINT || st2.op == OP_COL_ANALOG) && st2.i.size() > 1 && st2.i[1] != 1) { Case t2 = c; t2.plans[t].steps[k].i[1] = 1; ++runs; if (reproduces(t2, key)) c = t2; }
        }
    if (c.epochs > 2) { Case t2 = c; t2.epochs = 2; ++runs; if (reproduces(t2, key)) c = t2; }
    c.plans[0].notes.push_back("minimised in " + tos(runs) + " re-runs under key " + key);
}

int cmd_worker(int argc, char **argv) {
    std::string prop = arg(argc, argv, "--prop"), tier = arg(argc, argv, "--tier", "quick");
    uint64_t seed = std::strtoull(arg(argc, argv, "--seed", "1").c_str(), nullptr, 10);
    uint64_t from = std::strtoull(arg(argc, argv, "--from", "0").c_str(), nullptr, 10);
    uint64_t count = std::strtoull(arg(argc, argv, "--count", "100").c_str(), nullptr, 10);
    uint64_t offset = std::strtoull(arg(argc, argv, "--offset", "0").c_str(), nullptr, 10);
    uint64_t stride = std::strtoull(arg(argc, argv, "--stride", "1").c_str(), nullptr, 10);
    std::string only = arg(argc, argv, "--only", "");
    std::string progFile = arg(argc, argv, "--progress", "");
    volatile uint64_t *prog = nullptr;
    if (!progFile.empty()) {
        int fd = open(progFile.c_str(), O_RDWR | O_CREAT | O_TRUNC, 0644);
        if (fd >= 0 && ftruncate(fd, 4096) == 0) prog = static_cast<uint64_t *>(mmap(nullptr, 4096, PROT_READ | PROT_WRITE, MAP_SHARED, fd, 0));
        if (prog == MAP_FAILED) prog = nullptr;
    }
    std::string root = arg(argc, argv, "--root", "");
    if (!root.empty()) disk_set_real_root(root);
    bool stepHashes = flag(argc, argv, "--steps");
    install_crash_handlers();
    RunStats total;
    uint64_t nSamples = 0;
    std::vector<uint64_t> idx;
    if (!only.empty()) { std::istringstream ls(only); std::string t; while (std::getline(ls, t, ',')) idx.push_back(std::strtoull(t.c_str(), nullptr, 10)); }
    else for (uint64_t i = from + offset; i < from + count; i += stride) idx.push_back(i);
    // C18: every case in its own forked child. State the library initialises at first use (function-local statics, lazily
    // built tables) is then virgin when the case's threads start - in a long-lived worker only the first case would ever
    // meet it. The child prints what the worker would print for that one case; the parent relays it.
    bool isolate = prop == "C18" && !flag(argc, argv, "--no-isolate");
    auto summary = [&](const RunStats &tot) {
        std::printf("STATES");
        for (auto s : tot.states) std::printf(" %llx", static_cast<unsigned long long>(s));
        std::printf("\nBIGRAMS");
        for (auto &kv : tot.bigrams) std::printf(" %s>%s:%llu", op_name(kv.first.first), op_name(kv.first.second), static_cast<unsigned long long>(kv.second));
        std::printf("\nPROBES");
        for (auto &kv : tot.probes) std::printf(" %s=%llu", kv.first.c_str(), static_cast<unsigned long long>(kv.second));
        DiskTotals dt = disk_totals();
        std::printf("\nDISK opens=%llu write_calls=%llu read_calls=%llu seeks=%llu bytes_written=%llu bytes_read=%llu open_fail=%llu budget=%llu eio=%llu short_write=%llu eintr_w=%llu eintr_r=%llu short_read=%llu seek_fail=%llu\n",
                    static_cast<unsigned long long>(dt.opens), static_cast<unsigned long long>(dt.write_calls), static_cast<unsigned long long>(dt.read_calls),
                    static_cast<unsigned long long>(dt.seeks), static_cast<unsigned long long>(dt.bytes_written), static_cast<unsigned long long>(dt.bytes_read),
                    static_cast<unsigned long long>(dt.f_open_fail), static_cast<unsigned long long>(dt.f_budget), static_cast<unsigned long long>(dt.f_eio),
                    static_cast<unsigned long long>(dt.f_short_write), static_cast<unsigned long long>(dt.f_eintr_w), static_cast<unsigned long long>(dt.f_eintr_r),
                    static_cast<unsigned long long>(dt.f_short_read), static_cast<unsigned long long>(dt.f_seek));
        std::printf("RATIOS worst_read_ratio=%.4f worst_heap_ratio=%.2f\n", tot.worst_read_ratio, tot.worst_heap_ratio);
    };
    auto one_case = [&](uint64_t i, RunStats &tot, bool sample) {
        Case c = gen_case(prop, tier, seed, i);
        CaseResult r = run_case(c, prog ? prog + 1 : nullptr);
        print_result(c, r);
        if (stepHashes) { std::printf("STEPS i=%llu", static_cast<unsigned long long>(i)); for (auto h : r.step_hashes) std::printf(" %016llx", static_cast<unsigned long long>(h)); std::printf("\n"); }
        if (sample) std::printf("SAMPLE %s\n", oneline(case_sample(c)).c_str());
        std::fflush(stdout);
        tot.states.insert(r.st.states.begin(), r.st.states.end());
        for (auto &kv : r.st.bigrams) tot.bigrams[kv.first] += kv.second;
        for (auto &kv : r.st.probes) tot.probes[kv.first] += kv.second;
        tot.worst_read_ratio = std::max(tot.worst_read_ratio, r.st.worst_read_ratio);
        tot.worst_heap_ratio = std::max(tot.worst_heap_ratio, r.st.worst_heap_ratio);
    };
    for (uint64_t i : idx) {
        std::printf("BEGIN %llu\n", static_cast<unsigned long long>(i));
        std::fflush(stdout);
        char ctx[64];
        std::snprintf(ctx, sizeof ctx, "case=%llu", static_cast<unsigned long long>(i));
        crash_context(ctx);
        if (prog) { prog[0] = i; prog[1] = 0; }
        if (!isolate) { one_case(i, total, nSamples < 3); ++nSamples; continue; }
        int pfd[2];
        if (pipe(pfd) != 0) { one_case(i, total, nSamples < 3); ++nSamples; continue; }
        pid_t pid = fork();
        if (pid == 0) {
            close(pfd[0]);
            dup2(pfd[1], 1);
            dup2(pfd[1], 2);
            close(pfd[1]);
            RunStats mine;
            one_case(i, mine, nSamples < 3);
            summary(mine);
            std::fflush(stdout);
            _exit(0);
        }
        close(pfd[1]);
        char buf[65536];
        ssize_t nr;
        while ((nr = read(pfd[0], buf, sizeof buf)) > 0) { size_t off = 0; while (off < static_cast<size_t>(nr)) { ssize_t w = write(1, buf + off, static_cast<size_t>(nr) - off); if (w <= 0) break; off += static_cast<size_t>(w); } }
        close(pfd[0]);
        int status = 0;
        waitpid(pid, &status, 0);
        ++nSamples;
        if (!(WIFEXITED(status) && WEXITSTATUS(status) == 0)) {
            // the case killed its process (crash handler: 70, ASan: 77, TSan: 66, a raw signal): the worker dies with it, the
            // supervisor gates the case and restarts the worker behind it
            std::fflush(stdout);
            _exit(WIFEXITED(status) ? WEXITSTATUS(status) : 128 + WTERMSIG(status));
        }
    }
    if (!isolate) summary(total);
    std::printf("DONE\n");
    return 0;
}

int cmd_gen(int argc, char **argv) {
    Case c = gen_case(arg(argc, argv, "--prop"), arg(argc, argv, "--tier", "quick"), std::strtoull(arg(argc, argv, "--seed", "1").c_str(), nullptr, 10),
                      std::strtoull(arg(argc, argv, "--index", "0").c_str(), nullptr, 10));
    std::fputs(case_to_text(c).c_str(), stdout);
    return 0;
}

// gate: same plan twice -> identical outcome; minimise under the same key; write the replay file
int cmd_gate(int argc, char **argv) {
    std::string prop = arg(argc, argv, "--prop"), tier = arg(argc, argv, "--tier", "quick"), want = arg(argc, argv, "--key", ""), out = arg(argc, argv, "--out");
    uint64_t seed = std::strtoull(arg(argc, argv, "--seed", "1").c_str(), nullptr, 10), index = std::strtoull(arg(argc, argv, "--index", "0").c_str(), nullptr, 10);
    int alt = std::atoi(arg(argc, argv, "--alt", "-1").c_str());
    Case c = gen_case(prop, tier, seed, index);
    if (alt >= 0 && alt < static_cast<int>(c.alts.size())) {
        std::vector<Damage> a = c.alts[static_cast<size_t>(alt)];
        std::string l = static_cast<size_t>(alt) < c.alt_labels.size() ? c.alt_labels[static_cast<size_t>(alt)] : "";
        c.alts = {a}; c.alt_labels = {l};
    }
    Outcome o1 = run_in_child(c), o2 = run_in_child(c);
    if (o1.keys.empty()) { std::printf("GATE result=no-repro\n"); return 3; }
    std::string key = (!want.empty() && o1.keys.count(want)) ? want : o1.firstKey;
    bool unstable = false;
    if (o1.sig() != o2.sig()) {
        // Same plan, two runs, two different traces. If both runs violate the SAME assertion the difference is in what the
        // library did (bytes taken from memory it does not own differ from run to run: C14's subject, and any
        // use-after-free); that is a violation to report, with the instability stated. Anything else is the harness.
        if (o2.keys.count(key)) unstable = true;
        else { std::printf("GATE result=nondeterministic first=%s second=%s\n", o1.sig().c_str(), o2.sig().c_str()); return 2; }
    }
    if (!flag(argc, argv, "--no-shrink") && !unstable) shrink_case(c, key, o1.failing_alt);
    Outcome o3 = run_in_child(c);
    for (int again = 0; again < 2 && unstable && !o3.keys.count(key); ++again) o3 = run_in_child(c);
    if (!o3.keys.count(key)) { std::printf("GATE result=nondeterministic after-shrink\n"); return 2; }
    if (unstable) c.plans[0].notes.push_back("two runs of this plan violate the same assertion with different traces: what the library reads or writes here differs from run to run");
    // C18: pin the schedule that was actually taken is not needed (a pure function of sched.seed and the plans)
    c.plans[0].notes.push_back("violation " + key + ": " + o3.detail);
    std::ofstream f(out);
    f << case_to_text(c);
    f.close();
    std::printf("GATE result=ok key=%s replay=%s kind=%s%s detail=%s\n", key.c_str(), out.c_str(), o3.kind.c_str(), unstable ? "+unstable" : "", oneline(o3.detail).c_str());
    return 0;
}

int cmd_replay(int argc, char **argv) {
    if (argc < 3) return 2;
    std::ifstream f(argv[2]);
    std::stringstream ss;
    ss << f.rdbuf();
    Case c;
    std::string err;
    if (!case_from_text(ss.str(), c, &err)) { std::printf("REPLAY error=%s\n", err.c_str()); return 2; }
    Outcome o = run_in_child(c);
    if (o.keys.empty()) { std::printf("REPLAY result=ok (no violation)\n"); return 0; }
    for (auto &k : o.keys) std::printf("REPLAY result=violation key=%s\n", k.c_str());
    std::printf("REPLAY detail=%s\n", o.detail.c_str());
    if (flag(argc, argv, "--verbose")) std::fputs(case_to_text(c).c_str(), stdout);
    return 1;
}

} // namespace

int main(int argc, char **argv) {
    if (argc < 2) { std::fprintf(stderr, "usage: simc3d worker|gen|gate|replay ...\n"); return 2; }
    std::string cmd = argv[1];
    setvbuf(stdout, nullptr, _IOFBF, 1 << 16);
    if (cmd == "worker") return cmd_worker(argc, argv);
    if (cmd == "gen") return cmd_gen(argc, argv);
    if (cmd == "gate") return cmd_gate(argc, argv);
    if (cmd == "replay") return cmd_replay(argc, argv);
    std::fprintf(stderr, "unknown command\n");
    return 2;
}
