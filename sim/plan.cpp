#include "plan.h"
#include <cstdio>
#include <cstdlib>
#include <sstream>

namespace sim {

static const char *OPN[] = {"NEW", "LOAD", "DECL_POINT", "DECL_ANALOG", "SET_RATE", "PARAM", "PARAM_SETBAD", "LOCK_GROUP",
                            "UNLOCK_GROUP", "FRAME_BUILD", "FRAME_SUBMIT", "FRAME_MUTATE", "COL_POINT", "COL_ANALOG",
                            "COL_MUTATE", "SAVE", "RELOAD", "PRINT", "FILL_GAPS", "BULK_FRAMES", "FRAME_DUP", "PARAM_EDIT", "LOOKUP", "ADOPT"};

const char *op_name(int op) { return (op >= 0 && op < OP_NOPS) ? OPN[op] : "?"; }
int op_from_name(const std::string &s) {
    for (int i = 0; i < OP_NOPS; ++i) if (s == OPN[i]) return i;
    return -1;
}

static std::string esc(const std::string &s) {
    std::string r = "\"";
    for (unsigned char c : s) {
        if (c == '"' || c == '\\') { r += '\\'; r += static_cast<char>(c); }
        else if (c < 32 || c > 126) { char b[8]; std::snprintf(b, sizeof b, "\\x%02x", c); r += b; }
        else r += static_cast<char>(c);
    }
    return r + "\"";
}

std::string step_to_text(const Step &s) {
    std::ostringstream o;
    o << "step " << op_name(s.op) << " i=[";
    for (size_t k = 0; k < s.i.size(); ++k) o << (k ? "," : "") << s.i[k];
    o << "] s=[";
    for (size_t k = 0; k < s.s.size(); ++k) o << (k ? "," : "") << esc(s.s[k]);
    o << "]";
    const FaultSpec &f = s.fault;
    if (f.any_hard() || f.any_benign() || f.benign_seed)
        o << " f=[" << f.open_errno << "," << f.byte_budget << "," << f.budget_errno << "," << f.fail_write_call << ","
          << f.fail_errno << "," << f.benign_seed << "," << f.short_write_pct << "," << f.eintr_pct << "," << f.short_read_pct << "," << (f.dest_is_dir ? 1 : 0) << "," << f.fail_seek_call << "]";
    return o.str();
}

std::string plan_to_text(const Plan &p) {
    std::ostringstream o;
    o << "plan prop=" << p.prop << " tag=" << (p.tag.empty() ? "-" : p.tag) << " run_seed=" << p.run_seed << " fill=" << p.fill_seed << " flags=" << p.flags << "\n";
    for (auto &n : p.notes) o << "# " << n << "\n";
    for (auto &s : p.steps) o << step_to_text(s) << "\n";
    if (!p.image.empty()) {
        o << "image " << p.image.size() << " ";
        static const char *hx = "0123456789abcdef";
        for (uint8_t b : p.image) { o << hx[b >> 4] << hx[b & 15]; }
        o << "\n";
    }
    o << "end\n";
    return o.str();
}

namespace {
struct Cur {
    const std::string &t;
    size_t p;
    bool eof() const { return p >= t.size(); }
    char peek() const { return eof() ? '\0' : t[p]; }
    void ws() { while (!eof() && (t[p] == ' ' || t[p] == '\t')) ++p; }
    bool lit(const char *s) {
        size_t n = std::char_traits<char>::length(s);
        if (t.compare(p, n, s) == 0) { p += n; return true; }
        return false;
    }
    std::string word() {
        size_t b = p;
        while (!eof() && t[p] != ' ' && t[p] != '\n' && t[p] != '=' && t[p] != '\t') ++p;
        return t.substr(b, p - b);
    }
    bool num(int64_t &v) {
        size_t b = p;
        if (peek() == '-') ++p;
        while (!eof() && t[p] >= '0' && t[p] <= '9') ++p;
        if (p == b) return false;
        v = std::strtoll(t.substr(b, p - b).c_str(), nullptr, 10);
        return true;
    }
    bool unum(uint64_t &v) {
        size_t b = p;
        while (!eof() && t[p] >= '0' && t[p] <= '9') ++p;
        if (p == b) return false;
        v = std::strtoull(t.substr(b, p - b).c_str(), nullptr, 10);
        return true;
    }
    bool str(std::string &s) {
        if (peek() != '"') return false;
        ++p;
        s.clear();
        while (!eof() && t[p] != '"') {
            if (t[p] == '\\' && p + 1 < t.size()) {
                if (t[p + 1] == 'x' && p + 3 < t.size()) {
                    s += static_cast<char>(std::strtol(t.substr(p + 2, 2).c_str(), nullptr, 16));
                    p += 4;
                } else { s += t[p + 1]; p += 2; }
            } else s += t[p++];
        }
        if (eof()) return false;
        ++p;
        return true;
    }
    void line() { while (!eof() && t[p] != '\n') ++p; if (!eof()) ++p; }
};
} // namespace

bool plan_from_text(const std::string &text, Plan &p, std::string *err) {
    Cur c{text, 0};
    auto fail = [&](const char *m) { if (err) *err = m; return false; };
    p = Plan();
    bool sawPlan = false;
    while (!c.eof()) {
        c.ws();
        if (c.peek() == '\n') { c.line(); continue; }
        if (c.peek() == '#') {
            size_t b = c.p + 1;
            c.line();
            std::string n = text.substr(b, c.p - b);
            while (!n.empty() && (n.back() == '\n' || n.back() == ' ')) n.pop_back();
            if (!n.empty() && n[0] == ' ') n.erase(0, 1);
            p.notes.push_back(n);
            continue;
        }
        if (c.lit("plan ")) {
            sawPlan = true;
            while (!c.eof() && c.peek() != '\n') {
                c.ws();
                std::string k = c.word();
                if (!c.lit("=")) return fail("plan header");
                if (k == "prop") p.prop = c.word();
                else if (k == "tag") { p.tag = c.word(); if (p.tag == "-") p.tag.clear(); }
                else if (k == "run_seed") { if (!c.unum(p.run_seed)) return fail("run_seed"); }
                else if (k == "fill") { if (!c.unum(p.fill_seed)) return fail("fill"); }
                else if (k == "flags") { if (!c.unum(p.flags)) return fail("flags"); }
                else c.word();
            }
            c.line();
            continue;
        }
        if (c.lit("step ")) {
            Step s;
            std::string name = c.word();
            s.op = op_from_name(name);
            if (s.op < 0) return fail("unknown op");
            c.ws();
            if (!c.lit("i=[")) return fail("i=[");
            while (c.peek() != ']') { int64_t v; if (!c.num(v)) return fail("int"); s.i.push_back(v); c.lit(","); }
            c.lit("]"); c.ws();
            if (!c.lit("s=[")) return fail("s=[");
            while (c.peek() != ']') { std::string v; if (!c.str(v)) return fail("str"); s.s.push_back(v); c.lit(","); }
            c.lit("]"); c.ws();
            if (c.lit("f=[")) {
                int64_t v[9];
                uint64_t bseed = 0;
                for (int k = 0; k < 9; ++k) {
                    if (k == 5) { if (!c.unum(bseed)) return fail("fault seed"); v[k] = 0; } // full 64-bit seed: not a signed number
                    else if (!c.num(v[k])) return fail("fault");
                    c.lit(",");
                }
                { int64_t dd = 0; if (c.peek() != ']' && c.num(dd)) s.fault.dest_is_dir = dd != 0; c.lit(","); }
                { int64_t dd = -1; if (c.peek() != ']' && c.num(dd)) s.fault.fail_seek_call = dd; }
                c.lit("]");
                s.fault.open_errno = static_cast<int>(v[0]); s.fault.byte_budget = v[1]; s.fault.budget_errno = static_cast<int>(v[2]);
                s.fault.fail_write_call = v[3]; s.fault.fail_errno = static_cast<int>(v[4]); s.fault.benign_seed = bseed;
                s.fault.short_write_pct = static_cast<unsigned>(v[6]); s.fault.eintr_pct = static_cast<unsigned>(v[7]); s.fault.short_read_pct = static_cast<unsigned>(v[8]);
            }
            p.steps.push_back(s);
            c.line();
            continue;
        }
        if (c.lit("image ")) {
            uint64_t n;
            if (!c.unum(n)) return fail("image size");
            c.ws();
            p.image.resize(n);
            for (uint64_t k = 0; k < n; ++k) {
                if (c.p + 1 >= text.size()) return fail("image data");
                auto hv = [](char ch) { return ch <= '9' ? ch - '0' : ch - 'a' + 10; };
                p.image[k] = static_cast<uint8_t>(hv(text[c.p]) * 16 + hv(text[c.p + 1]));
                c.p += 2;
            }
            c.line();
            continue;
        }
        if (c.lit("end")) { c.line(); return sawPlan ? true : fail("no plan header"); }
        return fail("unexpected line");
    }
    return sawPlan ? true : fail("no plan header");
}

} // namespace sim
