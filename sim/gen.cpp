#include "gen.h"
#include <algorithm>
#include <sstream>

namespace sim {

namespace {
template <class T> std::string tos(const T &v) { std::ostringstream o; o << v; return o.str(); }
const uint32_t RATES[] = {0x42c80000u /*100*/, 0x42700000u /*60*/, 0x424a0000u /*50.5*/, 0x42f00000u /*120*/, 0x3f800000u /*1*/,
                          0x447a0000u /*1000*/, 0x3f000000u /*0.5*/, 0x43480000u /*200*/, 0x41efc28fu /*29.97*/};
}

std::string gen_name(Rng &r, unsigned maxLen) {
    static const char *A = "ABCDEFGHIJKLMNOPQRSTUVWXYZabcdefghijklmnopqrstuvwxyz0123456789_";
    size_t n = 1 + r.below(maxLen);
    std::string s;
    for (size_t i = 0; i < n; ++i) s += A[r.below(i == 0 ? 52 : 63)];
    return s;
}

// a name of exactly `len` characters that ends in `suffix` (keeps generated names unique)
static std::string gen_exact_name(Rng &r, unsigned len, const std::string &suffix) {
    static const char *A = "ABCDEFGHIJKLMNOPQRSTUVWXYZabcdefghijklmnopqrstuvwxyz0123456789_";
    std::string s;
    while (s.size() + suffix.size() < len) s += A[r.below(s.empty() ? 52 : 63)];
    if (s.empty()) s = "n";
    return s + suffix;
}

std::string gen_text(Rng &r, unsigned len) {
    std::string s;
    for (unsigned i = 0; i < len; ++i) {
        char c = static_cast<char>(33 + r.below(94));
        if (i + 1 < len && r.chance(1, 8)) c = ' ';
        s += c;
    }
    return s;
}

static int64_t gen_int16(Rng &r) {
    static const int64_t edge[] = {0, 1, -1, 2, 127, 128, 129, 255, 256, 257, 32766, 32767, -32767, -32768, -128, -129, -255, -256, 80, 0x5000, 0x50ff - 0x10000 + 0x8000};
    if (r.chance(1, 2)) return edge[r.below(sizeof(edge) / sizeof(edge[0]))];
    return static_cast<int64_t>(r.below(65536)) - 32768;
}

// lengths: boundary-dense (powers of two and their neighbours, the one-byte limits), uniform over the whole range, or small
static unsigned gen_len(Rng &r, unsigned maxLen) {
    static const unsigned edge[] = {0, 1, 2, 3, 4, 7, 8, 9, 15, 16, 17, 31, 32, 33, 63, 64, 65, 100, 126, 127, 128, 129, 200, 253, 254, 255};
    unsigned k = static_cast<unsigned>(r.below(100));
    unsigned len;
    if (k < 35) len = edge[r.below(sizeof(edge) / sizeof(edge[0]))];
    else if (k < 60) len = static_cast<unsigned>(r.below(maxLen + 1));
    else len = static_cast<unsigned>(r.below(24));
    return len > maxLen ? maxLen : len;
}
static unsigned gen_desc_len(Rng &r, unsigned maxDesc) {
    if (r.chance(2, 5)) return 0;
    return gen_len(r, maxDesc);
}

// i: type, lock, preset, ndims(-1 default), dims.., nvals, vals.. ; s: group, name, desc, strvals..
Step make_param_step(Rng &r, const Profile &pf, const std::string &group, const std::string &name, bool allowBad) {
    Step st;
    st.op = OP_PARAM;
    int type = 1 + static_cast<int>(r.below(3));
    bool bad = allowBad && pf.pct_bad_param && r.below(100) < pf.pct_bad_param;
    int badKind = bad ? static_cast<int>(r.below(4)) : -1; // 0 unnamed, 1 untyped, 2/3 inconsistent shape
    if (badKind == 1) type = 0;
    st.s.push_back(group);
    st.s.push_back(badKind == 0 ? std::string() : name);
    st.s.push_back(gen_text(r, gen_desc_len(r, pf.max_desc)));
    st.i.push_back(type);
    { unsigned k = static_cast<unsigned>(r.below(16)); st.i.push_back(k < 10 ? 0 : k < 13 ? 1 : k < 14 ? 2 : 3); } // lock mode
    st.i.push_back(r.chance(1, 2));
    std::vector<int64_t> dims;
    int64_t nd = -1;
    uint64_t count;
    if (r.chance(3, 10)) {
        count = r.below(r.chance(1, 10) ? 40 : 7);
    } else {
        static const int64_t dchoice[] = {0, 1, 1, 2, 2, 3, 4, 5};
        nd = 1 + static_cast<int64_t>(r.below(type == 3 ? 6 : 7));
        if (r.chance(1, 2)) nd = 1 + static_cast<int64_t>(r.below(2));
        uint64_t prod = 1;
        for (int64_t d = 0; d < nd; ++d) {
            int64_t v = dchoice[r.below(8)];
            if (prod * static_cast<uint64_t>(v) > 48) v = 1;
            dims.push_back(v);
            prod *= static_cast<uint64_t>(v);
        }
        if (nd == 1 && r.chance(1, 10)) { dims[0] = 200 + static_cast<int64_t>(r.below(56)); prod = static_cast<uint64_t>(dims[0]); } // near the 255 limit
        if (type != 3 && !bad && r.chance(1, 120)) {
            // a big table: one record of 20..64 KB (the 16-bit record length above and below 32767)
            uint64_t bytes = 20000 + r.below(44000);
            uint64_t a = 100 + r.below(156);
            uint64_t b = std::max<uint64_t>(1, std::min<uint64_t>(255, bytes / (type == 2 ? 4 : 2) / a));
            nd = 2; dims.assign({static_cast<int64_t>(a), static_cast<int64_t>(b)}); prod = a * b;
        }
        count = prod;
    }
    if (badKind >= 2) {
        if (nd < 0) { nd = 1; dims.assign(1, static_cast<int64_t>(count)); }
        if (badKind == 2) count += 1 + r.below(3);
        else if (count > 0) count -= 1; else { dims[0] = 1 + static_cast<int64_t>(r.below(3)); for (size_t d = 1; d < dims.size(); ++d) if (dims[d] == 0) dims[d] = 1; }
    }
    st.i.push_back(nd);
    for (auto d : dims) st.i.push_back(d);
    if (type == 3) {
        st.i.push_back(0);
        for (uint64_t k = 0; k < count; ++k) {
            unsigned len = r.chance(1, 5) ? gen_len(r, count > 8 ? 40 : 255) : static_cast<unsigned>(r.below(16));
            if (r.chance(1, 6)) len = 0;
            st.s.push_back(gen_text(r, len));
        }
    } else {
        st.i.push_back(static_cast<int64_t>(count));
        for (uint64_t k = 0; k < count; ++k) {
            if (type == 2) st.i.push_back(static_cast<int64_t>(gen_float_bits(r)));
            else if (pf.int16_only) st.i.push_back(gen_int16(r));
            else st.i.push_back(r.chance(1, 2) ? gen_int16(r) : static_cast<int64_t>(static_cast<int32_t>(r.next())));
        }
    }
    return st;
}

FaultSpec benign_faults(Rng &r, unsigned pct) {
    FaultSpec f;
    if (!pct) return f;
    f.benign_seed = r.next() | 1;
    if (r.chance(2, 3)) f.short_write_pct = 1 + static_cast<unsigned>(r.below(pct));
    if (r.chance(2, 3)) f.eintr_pct = 1 + static_cast<unsigned>(r.below(pct));
    if (r.chance(2, 3)) f.short_read_pct = 1 + static_cast<unsigned>(r.below(pct));
    return f;
}

void gen_history(Rng &r, const Profile &pf, Plan &plan) {
    bool big = r.below(100) < pf.pct_big;
    unsigned P = static_cast<unsigned>(r.below(pf.max_points + 1));
    unsigned C = static_cast<unsigned>(r.below(pf.max_channels + 1));
    if (r.chance(1, 6)) P = 0;
    if (r.chance(1, 4)) C = 0;
    if (big) {
        if (r.chance(1, 2)) P = 200 + static_cast<unsigned>(r.below(41)); // leaves room for late columns below the 255 capacity
        if (r.chance(1, 2)) C = 200 + static_cast<unsigned>(r.below(41));
    }
    unsigned S = C ? 1 + static_cast<unsigned>(r.below(pf.max_subframes)) : 0;
    unsigned F = static_cast<unsigned>(r.below(pf.max_frames + 1));
    if (big && P <= 100 && C <= 100) { F = 100 + static_cast<unsigned>(r.below(150)); P = std::min(P, 4u); C = std::min(C, 3u); } // (a snapshot after every step: cost grows with the square of the frame count)
    if (P > 100 || C > 100) F = std::min(F, 8u); // keeps a run (a snapshot after every step) well under a second

    std::vector<std::string> pnames, cnames;
    for (unsigned i = 0; i < P; ++i) pnames.push_back(gen_exact_name(r, r.chance(1, 8) && P < 20 ? std::max(2u, gen_len(r, 120)) : 2 + static_cast<unsigned>(r.below(10)), tos(i)));
    for (unsigned i = 0; i < C; ++i) cnames.push_back(gen_exact_name(r, r.chance(1, 8) && C < 20 ? std::max(3u, gen_len(r, 120)) : 3 + static_cast<unsigned>(r.below(10)), "c" + tos(i)));

    if (pf.pct_space_names) {
        for (auto &n : pnames) if (r.below(100) < pf.pct_space_names) n += " ";
        for (auto &n : cnames) if (r.below(100) < pf.pct_space_names) n += "  ";
    }
    std::vector<Step> setup;
    for (auto &n : pnames) { Step s; s.op = OP_DECL_POINT; s.s.push_back(n); setup.push_back(s); }
    for (auto &n : cnames) { Step s; s.op = OP_DECL_ANALOG; s.s.push_back(n); setup.push_back(s); }
    uint32_t prate = RATES[r.below(r.chance(1, 12) ? 9 : 8)];
    bool setPointRate = P > 0 || r.chance(7, 10);
    if (r.chance(1, 40)) setPointRate = false; // frames that must be refused for lack of a rate
    if (setPointRate) { Step s; s.op = OP_SET_RATE; s.i = {0, static_cast<int64_t>(prate)}; setup.push_back(s); }
    if (C > 0 && !r.chance(1, 40)) {
        float ar = bits2f(prate) * static_cast<float>(S);
        if (!setPointRate) { ar = bits2f(RATES[r.below(8)]); }
        Step s; s.op = OP_SET_RATE; s.i = {1, static_cast<int64_t>(f2bits(ar))}; setup.push_back(s);
    }
    // rate revisions before any data exists (the header must follow every one of them, C05): sub-frame ratio moved by
    // small steps (3 -> 2, 10 -> 9 ...) as well as large ones, and the point rate re-declared under a fixed analog rate
    if (C > 0 && setPointRate && r.chance(1, 3)) {
        unsigned nrev = 1 + static_cast<unsigned>(r.below(3));
        for (unsigned k = 0; k < nrev; ++k) {
            Step s; s.op = OP_SET_RATE;
            if (r.chance(3, 4)) {
                unsigned S2 = 1 + static_cast<unsigned>(r.below(r.chance(1, 4) ? 12 : 5));
                s.i = {1, static_cast<int64_t>(f2bits(bits2f(prate) * static_cast<float>(S2)))};
            } else if (r.chance(1, 2)) {
                s.i = {0, static_cast<int64_t>(RATES[r.below(8)])};
            } else {
                // the same point rate again, a few ulps away (below the 1e-4 Hz the header comparison resolves)
                int64_t d = static_cast<int64_t>(r.below(40)) - 20;
                s.i = {0, static_cast<int64_t>(prate) + d};
            }
            setup.push_back(s);
        }
    }
    std::vector<std::string> groups = {"POINT", "ANALOG", "FORCE_PLATFORM"};
    unsigned ng = static_cast<unsigned>(r.below(3));
    for (unsigned g = 0; g < ng; ++g) {
        std::string prefix = r.chance(1, 3) ? "grp_" : "GRP";
        std::string body = gen_exact_name(r, r.chance(1, 6) ? std::max(2u, gen_len(r, 120)) : 2 + static_cast<unsigned>(r.below(8)), "");
        groups.push_back(prefix + body + tos(g));
    }
    unsigned ncp = static_cast<unsigned>(r.below(pf.n_custom_params + 1));
    std::vector<std::pair<std::string, std::string>> customs;
    for (unsigned k = 0; k < ncp; ++k) {
        std::string g = groups[r.below(groups.size())];
        if (g == "POINT" || g == "ANALOG") { if (!r.chance(1, 3)) g = groups.size() > 3 ? groups[3 + r.below(groups.size() - 3)] : "FORCE_PLATFORM"; }
        std::string n = "X" + gen_exact_name(r, r.chance(1, 6) ? std::max(2u, gen_len(r, 125)) : 2 + static_cast<unsigned>(r.below(10)), tos(k)); // never a library-owned name
        if (!customs.empty() && r.chance(1, 5)) { g = customs[r.below(customs.size())].first; n = customs[r.below(customs.size())].second; } // replace in place
        if (pf.pct_space_names && r.below(100) < pf.pct_space_names) { if (r.chance(1, 2)) g += (r.chance(1, 2) ? " " : "  "); else n += " "; }
        customs.push_back(std::make_pair(g, n));
        setup.push_back(make_param_step(r, pf, g, n, true));
    }
    if (r.below(100) < pf.pct_locks) {
        Step s; s.op = r.chance(2, 3) ? OP_LOCK_GROUP : OP_UNLOCK_GROUP;
        s.s.push_back(r.chance(1, 8) ? "NO_SUCH_GROUP" : groups[r.below(groups.size())]);
        setup.push_back(s);
    }
    // frames
    std::vector<Step> frames;
    auto saveStep = [&](int64_t id) {
        if (pf.fill_gaps_before_save) { Step g; g.op = OP_FILL_GAPS; g.i = {static_cast<int64_t>(r.next() >> 1)}; frames.push_back(g); }
        Step s; s.op = OP_SAVE; s.i = {id}; s.fault = benign_faults(r, pf.benign_pct); frames.push_back(s);
    };
    for (unsigned f = 0; f < F; ++f) {
        int64_t slot = static_cast<int64_t>(r.below(4));
        int dev = DEV_NONE;
        if (r.below(100) < pf.pct_dev_frame) dev = 1 + static_cast<int>(r.below(DEV_N - 1));
        Step b; b.op = OP_FRAME_BUILD; b.i = {slot, dev, static_cast<int64_t>(r.next() >> 1), 0};
        if (r.chance(1, 50)) b.i[3] = 1 + static_cast<int64_t>(r.below(4));
        frames.push_back(b);
        unsigned k = static_cast<unsigned>(r.below(100));
        int mode = 0; int64_t raw = static_cast<int64_t>(r.below(1000));
        if (k < pf.pct_extend) mode = r.chance(1, 3) ? 2 : 3;
        else if (k < pf.pct_extend + pf.pct_replace) mode = 1;
        Step s; s.op = OP_FRAME_SUBMIT; s.i = {slot, mode, raw}; frames.push_back(s);
        if (r.below(100) < pf.pct_resubmit) {
            Step s2 = s; s2.i[1] = r.chance(1, 2) ? 0 : static_cast<int64_t>(r.below(4)); s2.i[2] = static_cast<int64_t>(r.below(1000));
            frames.push_back(s2);
        }
        if (r.below(100) < pf.pct_caller_mutation) {
            Step m; m.op = OP_FRAME_MUTATE; m.i = {slot, static_cast<int64_t>(r.below(10)), static_cast<int64_t>(r.next() >> 1)}; frames.push_back(m);
        }
        if (r.below(100) < pf.pct_cols / 4 + 1 && f > 0) {
            bool analog = r.chance(1, 2);
            Step c; c.op = analog ? OP_COL_ANALOG : OP_COL_POINT;
            int cdev = CDEV_NONE;
            if (r.below(100) < pf.pct_dev_col) cdev = 1 + static_cast<int>(r.below(CDEV_N - 1));
            c.i = {cdev, static_cast<int64_t>(r.next() >> 1)};
            unsigned nn = 1 + static_cast<unsigned>(r.below(3));
            for (unsigned q = 0; q < nn; ++q) c.s.push_back("col" + gen_name(r, 6) + tos(f) + "_" + tos(q));
            frames.push_back(c);
            if (r.below(100) < pf.pct_caller_mutation) { Step m; m.op = OP_COL_MUTATE; m.i = {static_cast<int64_t>(r.next() >> 1)}; frames.push_back(m); }
        }
        if (r.below(100) < pf.pct_decl_after_data / 4 + 1) {
            Step d; d.op = r.chance(1, 2) ? OP_DECL_POINT : OP_DECL_ANALOG;
            d.s.push_back(r.chance(1, 6) && !pnames.empty() ? pnames[r.below(pnames.size())] : "late" + gen_name(r, 6) + tos(f));
            frames.push_back(d);
        }
        if (r.below(100) < pf.pct_mid_save / 3 + 1 && pf.pct_mid_save) saveStep(static_cast<int64_t>(r.below(4)));
        if (r.below(100) < pf.pct_mid_reload / 3 + 1 && pf.pct_mid_reload) { Step rl; rl.op = OP_RELOAD; rl.i = {static_cast<int64_t>(r.below(8))}; rl.fault = benign_faults(r, pf.benign_pct); frames.push_back(rl); }
        if (r.below(100) < pf.pct_print / 3 + 1 && pf.pct_print) { Step p; p.op = OP_PRINT; frames.push_back(p); }
        if (r.chance(1, 12) && ncp) {
            // one draw per statement: the evaluation order of function arguments differs between compilers
            size_t gi = r.below(customs.size());
            size_t ni = r.below(customs.size());
            frames.push_back(make_param_step(r, pf, customs[gi].first, customs[ni].second, true));
        }
        if (r.chance(1, 12) && f > 0) {
            Step d; d.op = OP_FRAME_DUP;
            int64_t srcRaw = static_cast<int64_t>(r.below(1000));
            int64_t dmode = static_cast<int64_t>(r.below(4));
            int64_t draw = static_cast<int64_t>(r.below(1000));
            d.i = {srcRaw, dmode, draw};
            frames.push_back(d);
        }
        if (r.chance(1, 10)) {
            Step e; e.op = OP_PARAM_EDIT;
            int64_t g = static_cast<int64_t>(r.below(16));
            int64_t q = static_cast<int64_t>(r.below(16));
            int64_t k = static_cast<int64_t>(r.below(5));
            int64_t sel = static_cast<int64_t>(r.below(48));
            e.i = {g, q, k, sel};
            e.s.push_back(gen_text(r, gen_desc_len(r, pf.max_desc)));
            e.s.push_back("AL" + gen_name(r, 5) + tos(f));
            frames.push_back(e);
        }
        if (r.chance(1, 60)) { Step nw; nw.op = OP_NEW; frames.push_back(nw); } // the caller starts over with a fresh object (earlier files stay on the disk)
        if (r.chance(1, 8)) { Step lk; lk.op = OP_LOOKUP; lk.i = {static_cast<int64_t>(r.next() >> 1)}; frames.push_back(lk); }
        if (r.chance(1, 25)) { Step s3; s3.op = OP_SET_RATE; s3.i = {static_cast<int64_t>(r.below(2)), static_cast<int64_t>(RATES[r.below(8)])}; frames.push_back(s3); }
    }
    // order
    for (size_t i = setup.size(); i > 1; --i) std::swap(setup[i - 1], setup[r.below(i)]);
    bool shuffled = r.below(100) < pf.pct_shuffled_setup;
    if (!shuffled) {
        // declarations before rates is not required; rates before frames is
        plan.steps.insert(plan.steps.end(), setup.begin(), setup.end());
        plan.steps.insert(plan.steps.end(), frames.begin(), frames.end());
    } else {
        // random merge that keeps each list's internal order (frames before rates, declare-after-data, ...)
        size_t a = 0, b = 0;
        while (a < setup.size() || b < frames.size()) {
            bool takeA = b >= frames.size() || (a < setup.size() && r.below(setup.size() - a + frames.size() - b) < setup.size() - a);
            if (takeA) plan.steps.push_back(setup[a++]); else plan.steps.push_back(frames[b++]);
        }
    }
    if (pf.final_save_reload) {
        if (pf.fill_gaps_before_save) { Step g; g.op = OP_FILL_GAPS; g.i = {static_cast<int64_t>(r.next() >> 1)}; plan.steps.push_back(g); }
        Step s; s.op = OP_SAVE; s.i = {7}; s.fault = benign_faults(r, pf.benign_pct); plan.steps.push_back(s);
        Step rl; rl.op = OP_RELOAD; rl.i = {-1}; rl.fault = benign_faults(r, pf.benign_pct); plan.steps.push_back(rl);
    }
}

} // namespace sim
