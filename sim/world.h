// Executor: interprets a plan against the real ezc3d on the simulated file layer and evaluates
// the oracles of the enabled properties after every step.
#pragma once
#include "plan.h"
#include "snapshot.h"
#include <map>
#include <memory>
#include <set>
#include <string>
#include <vector>

namespace sim {

enum Oracle : uint32_t {
    ORC_C01 = 1u << 1, ORC_C03 = 1u << 3, ORC_C04 = 1u << 4, ORC_C05 = 1u << 5, ORC_C06 = 1u << 6, ORC_C07 = 1u << 7,
    ORC_C08 = 1u << 8, ORC_C09 = 1u << 9, ORC_C10 = 1u << 10, ORC_C14 = 1u << 14, ORC_C15 = 1u << 15, ORC_C17 = 1u << 17,
    ORC_NOTE_C02 = 1u << 2 // unclaimed: only ever produces NOTE lines
};

struct Violation {
    std::string prop, key, detail;
    int step = -1;
};

struct StepRecord {
    int op = 0;
    bool skipped = false;
    bool threw = false;
    std::string exc;       // exception class name ("" if none)
    uint64_t snap_hash = 0;
    uint64_t image_hash = 0; // saves only
    uint64_t aux = 0;        // e.g. hash of print() output
};

struct RunStats {
    uint64_t steps = 0, mutating_ok = 0, refused = 0, saves = 0, reloads = 0, faults_fired = 0, hard_fired = 0;
    uint64_t premise_broken = 0, io_calls = 0, read_seam_calls = 0;
    std::set<uint64_t> states;              // abstract state signatures reached
    std::map<std::pair<int, int>, uint64_t> bigrams;
    std::map<std::string, uint64_t> probes; // "rare condition was hit" counters
    double worst_read_ratio = 0, worst_heap_ratio = 0; // on valid loads: reads/S, peak heap/S
};

struct RunResult {
    std::vector<StepRecord> recs;
    std::vector<Violation> viol;
    std::vector<std::string> notes; // NOTE unclaimed=... lines
    uint64_t trace_hash = 0;
    RunStats st;
    std::vector<std::vector<uint8_t>> images; // one per OP_SAVE that produced a file (kept when cfg.keep_images)
    std::vector<std::vector<WriteRec>> traces; // write traces per successful save (when cfg.keep_images)
    std::vector<Snapshot> save_snaps;          // snapshot at each kept save
    Snapshot final_snap;
    bool has_object = false;
};

struct ExecCfg {
    uint32_t oracles = 0;
    std::string actor = "a0";        // path prefix /sim/<actor>/
    bool keep_images = false;
    bool stop_at_first_violation = true;
    bool yield_between_steps = false; // C18
    bool capture_print = true;        // false in thread mode (std::cout is shared)
    const std::vector<uint8_t> *image = nullptr; // for OP_LOAD "image"
    bool arm_budgets = false;         // C16: arm read/heap budgets around loads
};

RunResult run_plan(const Plan &plan, const ExecCfg &cfg);

// C18: the object every thread of a case takes frames from (OP_ADOPT); built before the threads start, never written afterwards
void donor_make(uint64_t seed); // seed 0: no donor
void donor_drop();

// pieces reused by the specialised modes
std::string classify_current_exception(std::string *what = nullptr); // call inside catch(...)
std::vector<uint8_t> read_real_file(const std::string &path);
std::string check_c05(const Snapshot &s, bool i5, std::string *facet, size_t *frameIdx = nullptr);

} // namespace sim
