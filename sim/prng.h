// Deterministic PRNG + hashing used by the whole simulator.
// One integer decides everything: every Rng is derived from a run seed by mix().
#pragma once
#include <cstdint>
#include <cstddef>
#include <string>
#include <vector>

namespace sim {

inline uint64_t splitmix64(uint64_t &x) {
    uint64_t z = (x += 0x9e3779b97f4a7c15ULL);
    z = (z ^ (z >> 30)) * 0xbf58476d1ce4e5b9ULL;
    z = (z ^ (z >> 27)) * 0x94d049bb133111ebULL;
    return z ^ (z >> 31);
}

inline uint64_t mix(uint64_t a, uint64_t b) {
    uint64_t x = a ^ (b * 0x9e3779b97f4a7c15ULL + 0x7f4a7c15ULL);
    splitmix64(x);
    return splitmix64(x);
}

inline uint64_t hash_str(const std::string &s, uint64_t h = 0xcbf29ce484222325ULL) {
    for (unsigned char c : s) { h ^= c; h *= 0x100000001b3ULL; }
    return h;
}
inline uint64_t hash_bytes(const void *p, size_t n, uint64_t h = 0xcbf29ce484222325ULL) {
    const unsigned char *c = static_cast<const unsigned char *>(p);
    for (size_t i = 0; i < n; ++i) { h ^= c[i]; h *= 0x100000001b3ULL; }
    return h;
}

struct Rng {
    uint64_t s[4];
    explicit Rng(uint64_t seed = 1) { reseed(seed); }
    void reseed(uint64_t seed) {
        uint64_t x = seed;
        for (int i = 0; i < 4; ++i) s[i] = splitmix64(x);
    }
    static inline uint64_t rotl(uint64_t x, int k) { return (x << k) | (x >> (64 - k)); }
    uint64_t next() {
        const uint64_t result = rotl(s[1] * 5, 7) * 9;
        const uint64_t t = s[1] << 17;
        s[2] ^= s[0]; s[3] ^= s[1]; s[1] ^= s[2]; s[0] ^= s[3];
        s[2] ^= t; s[3] = rotl(s[3], 45);
        return result;
    }
    // uniform in [0, n) ; n == 0 -> 0
    uint64_t below(uint64_t n) { return n ? next() % n : 0; }
    // uniform in [lo, hi]
    int64_t range(int64_t lo, int64_t hi) { return lo + static_cast<int64_t>(below(static_cast<uint64_t>(hi - lo + 1))); }
    bool chance(unsigned num, unsigned den) { return below(den) < num; }
    template <class T> const T &pick(const std::vector<T> &v) { return v[below(v.size())]; }
};

// Boundary-dense 32-bit float patterns.
inline uint32_t gen_float_bits(Rng &r) {
    static const uint32_t special[] = {
        0x00000000u, 0x80000000u, 0x00000001u, 0x80000001u, 0x007fffffu, 0x00800000u,
        0x7f7fffffu, 0xff7fffffu, 0x7f800000u, 0xff800000u, 0x7fc00000u, 0xffc00000u,
        0x7f800001u, 0x7fffffffu, 0xffffffffu, 0x3f800000u, 0xbf800000u, 0x41200000u,
        0x0000ff00u, 0x00ff0000u, 0xff000000u, 0x000000ffu, 0x80808080u, 0x7f7f7f7fu,
        0x20202020u, 0x00000020u, 0x50000000u, 0x00005000u};
    switch (r.below(4)) {
    case 0: return special[r.below(sizeof(special) / sizeof(special[0]))];
    case 1: return static_cast<uint32_t>(r.next());
    case 2: { // "ordinary" measurement-like value
        float f = static_cast<float>(static_cast<int>(r.below(200001)) - 100000) / 64.0f;
        uint32_t b; __builtin_memcpy(&b, &f, 4); return b;
    }
    default: { // every exponent/sign reachable
        uint32_t sign = static_cast<uint32_t>(r.below(2)) << 31;
        uint32_t exp = static_cast<uint32_t>(r.below(256)) << 23;
        uint32_t man = static_cast<uint32_t>(r.next()) & 0x7fffffu;
        return sign | exp | man;
    }
    }
}
inline float bits2f(uint32_t b) { float f; __builtin_memcpy(&f, &b, 4); return f; }
inline uint32_t f2bits(float f) { uint32_t b; __builtin_memcpy(&b, &f, 4); return b; }

} // namespace sim
