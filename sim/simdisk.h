// SimDisk: in-memory file layer under the real std::filebuf (libstdc++ linked statically,
// its libc calls fopen64/fclose/read/write/writev/lseek64 redirected with -Wl,--wrap).
// Only paths starting with "/sim/" are simulated; everything else passes through.
#pragma once
#include <cstdint>
#include <string>
#include <vector>

namespace sim {

struct WriteRec {
    uint64_t off;
    std::vector<uint8_t> bytes; // bytes actually accepted by this call
};

// Faults ride on the operation (one save or one load) they strike.
struct FaultSpec {
    // hard faults
    int open_errno = 0;            // opening for writing fails with this errno
    int64_t byte_budget = -1;      // accept exactly k more bytes over the whole op, then -1/budget_errno
    int budget_errno = 28;         // ENOSPC
    int64_t fail_write_call = -1;  // n-th (1-based) write call of this op returns -1/fail_errno
    int fail_errno = 5;            // EIO
    bool dest_is_dir = false;      // the destination path of this save is an existing directory (open: EISDIR; rename onto it: EISDIR)
    int64_t fail_seek_call = -1;   // n-th (1-based) lseek of this op returns -1/ESPIPE; 0 = every lseek fails (the destination is not seekable: FIFO, terminal)
    // benign faults (percent of calls), driven by benign_seed
    uint64_t benign_seed = 0;
    unsigned short_write_pct = 0, eintr_pct = 0, short_read_pct = 0;
    bool any_hard() const { return open_errno || byte_budget >= 0 || fail_write_call >= 0 || dest_is_dir || fail_seek_call >= 0; }
    bool any_benign() const { return short_write_pct || eintr_pct || short_read_pct; }
};

struct OpStats {
    uint64_t opens = 0, write_calls = 0, bytes_accepted = 0, read_calls = 0, bytes_read = 0, seeks = 0;
    uint64_t f_open_fail = 0, f_budget = 0, f_eio = 0, f_short_write = 0, f_eintr_w = 0, f_eintr_r = 0,
             f_short_read = 0, f_seek = 0, seek_calls_w = 0;
    bool hard_fired = false;
};

// global counters of faults that actually fired (for evidence)
struct DiskTotals {
    uint64_t opens = 0, write_calls = 0, read_calls = 0, seeks = 0, bytes_written = 0, bytes_read = 0;
    uint64_t f_open_fail = 0, f_budget = 0, f_eio = 0, f_short_write = 0, f_eintr_w = 0, f_eintr_r = 0,
             f_short_read = 0, f_seek = 0;
};

bool disk_is_simulated();                       // false in the C19 driver (real directory)
std::string disk_root();                        // "/sim" or a real temp dir
void disk_set_real_root(const std::string &d);  // C19 only
void disk_put(const std::string &path, const std::vector<uint8_t> &bytes);
bool disk_get(const std::string &path, std::vector<uint8_t> &bytes);
bool disk_exists(const std::string &path);
void disk_remove(const std::string &path);
void disk_clear_prefix(const std::string &prefix);
void disk_set_dir(const std::string &path, bool isDir); // simulated disk: mark a path as an existing directory
void disk_mkdirs(const std::string &dir);            // no-op on the simulated disk

// Begin/end an operation on the calling thread. While an op is open, every simulated
// I/O call made by this thread is counted, faulted and (for writes) traced.
void disk_begin_op(const FaultSpec &spec);
OpStats disk_end_op(std::vector<WriteRec> *trace = nullptr);
// vg variant: did the last writes hand an undefined byte to the OS? (file offset of the first one)
bool disk_take_undefined_write(uint64_t *off);
DiskTotals disk_totals();   // sum over all threads that ended ops
void disk_reset_totals();

// Image that results from applying the first n records of a trace (n > size: all),
// the last one optionally torn to its first `torn` bytes (torn < 0: whole record).
std::vector<uint8_t> apply_trace(const std::vector<WriteRec> &trace, size_t n, int64_t torn = -1);

} // namespace sim
