// Independent C3D codec, written from the format description (doc/c3dformat_ug.pdf).
#include "refc3d.h"
#include <algorithm>
#include <cmath>
#include <cstring>
#include <sstream>

namespace sim {

namespace {
template <class T> std::string tos(const T &v) { std::ostringstream o; o << v; return o.str(); }
inline unsigned u16(const std::vector<uint8_t> &b, uint64_t off) { return static_cast<unsigned>(b[off]) | (static_cast<unsigned>(b[off + 1]) << 8); }
inline uint32_t u32(const std::vector<uint8_t> &b, uint64_t off) {
    return static_cast<uint32_t>(b[off]) | (static_cast<uint32_t>(b[off + 1]) << 8) | (static_cast<uint32_t>(b[off + 2]) << 16) | (static_cast<uint32_t>(b[off + 3]) << 24);
}
inline int s8(uint8_t v) { return v >= 128 ? static_cast<int>(v) - 256 : static_cast<int>(v); }
inline int s16(unsigned v) { return v >= 32768 ? static_cast<int>(v) - 65536 : static_cast<int>(v); }
std::string rtrim(std::string s) { while (!s.empty() && s.back() == ' ') s.pop_back(); return s; }
// ezc3d hands strings around as C strings: an embedded NUL ends them
std::string cstr(const std::string &s) { size_t p = s.find('\0'); return p == std::string::npos ? s : s.substr(0, p); }
} // namespace

static const char *FKN[] = {"hdr.param_block", "hdr.magic", "hdr.npoints", "hdr.nanalog", "hdr.first", "hdr.last", "hdr.gap",
                            "hdr.scale", "hdr.data_start", "hdr.subframes", "hdr.rate", "hdr.events", "pro.start", "pro.magic",
                            "pro.blocks", "pro.proc", "rec.namelen", "rec.id", "rec.name", "rec.next", "rec.type", "rec.ndims",
                            "rec.dim", "rec.data", "rec.desclen", "rec.desc", "terminator", "val.POINT.USED", "val.POINT.FRAMES",
                            "val.POINT.RATE", "val.POINT.DATA_START", "val.POINT.SCALE", "val.ANALOG.USED", "val.ANALOG.RATE", "data"};
const char *field_kind_name(int k) { return (k >= 0 && k < FK_N) ? FKN[k] : "?"; }

const RefGroup *RefFile::group_by_name(const std::string &n) const {
    for (auto &g : groups) if (g.name == n) return &g;
    return nullptr;
}
const RefGroup *RefFile::group_by_id(int id) const {
    for (auto &g : groups) if (g.id == id) return &g;
    return nullptr;
}
const RefParam *RefFile::param(const std::string &g, const std::string &p) const {
    const RefGroup *gr = group_by_name(g);
    if (!gr) return nullptr;
    for (auto &q : params) if (q.group_id == gr->id && q.name == p) return &q;
    return nullptr;
}

std::string ref_decode(const std::vector<uint8_t> &b, RefFile &f, std::string *facet) {
    auto fail = [&](const char *fc, const std::string &d) { if (facet) *facet = fc; return d; };
    f = RefFile();
    f.file_size = b.size();
    uint64_t h = 0;
    while (h < b.size() && b[h] == 0) ++h;
    if (h >= b.size()) return fail("empty", "file is empty or all zero");
    f.hdr_off = h;
    if (h + 512 > b.size()) return fail("hdr.short", "header is shorter than 512 bytes");
    auto W = [&](unsigned w) { return h + 2ull * (w - 1); };
    f.param_block = b[h];
    f.magic = b[h + 1];
    f.fields.push_back({h, 1, FK_HDR_PARAM_BLOCK});
    f.fields.push_back({h + 1, 1, FK_HDR_MAGIC});
    if (f.magic != 0x50) return fail("hdr.magic", "header magic byte is " + tos(f.magic));
    f.n_points = u16(b, W(2)); f.fields.push_back({W(2), 2, FK_HDR_NPOINTS});
    f.n_analog_meas = u16(b, W(3)); f.fields.push_back({W(3), 2, FK_HDR_NANALOG});
    f.first = u16(b, W(4)); f.fields.push_back({W(4), 2, FK_HDR_FIRST});
    f.last = u16(b, W(5)); f.fields.push_back({W(5), 2, FK_HDR_LAST});
    f.gap = u16(b, W(6)); f.fields.push_back({W(6), 2, FK_HDR_GAP});
    f.scale_bits = u32(b, W(7)); f.fields.push_back({W(7), 4, FK_HDR_SCALE});
    f.data_start = u16(b, W(9)); f.fields.push_back({W(9), 2, FK_HDR_DATA_START});
    f.subframes = u16(b, W(10)); f.fields.push_back({W(10), 2, FK_HDR_SUBFRAMES});
    f.rate_bits = u32(b, W(11)); f.fields.push_back({W(11), 4, FK_HDR_RATE});
    f.key_label_present = u16(b, W(148));
    f.first_block_key_label = u16(b, W(149));
    f.four_char = u16(b, W(150));
    f.n_events = u16(b, W(151));
    f.fields.push_back({W(148), 8, FK_HDR_EVENTS});
    for (unsigned e = 0; e < 18; ++e) f.ev_times.push_back(u32(b, W(153) + 4ull * e));
    for (unsigned e = 0; e < 18; ++e) f.ev_flags.push_back(b[W(189) + e]);
    for (unsigned e = 0; e < 18; ++e) f.ev_labels.push_back(std::string(reinterpret_cast<const char *>(&b[W(199) + 4ull * e]), 4));
    f.fields.push_back({W(153), 72 + 18 + 2 + 72, FK_HDR_EVENTS});

    if (f.param_block < 1) return fail("hdr.param_block", "parameter block address 0");
    f.param_off = h + 512ull * (f.param_block - 1);
    if (f.param_off + 4 > b.size()) return fail("pro.outside", "parameter section starts beyond the end of the file");
    f.pro_start = b[f.param_off]; f.pro_magic = b[f.param_off + 1]; f.pro_blocks = b[f.param_off + 2]; f.pro_proc = b[f.param_off + 3];
    f.fields.push_back({f.param_off, 1, FK_PRO_START});
    f.fields.push_back({f.param_off + 1, 1, FK_PRO_MAGIC});
    f.fields.push_back({f.param_off + 2, 1, FK_PRO_BLOCKS});
    f.fields.push_back({f.param_off + 3, 1, FK_PRO_PROC});
    if (!(f.pro_magic == 0x50 || (f.pro_magic == 0 && f.pro_start == 0))) return fail("pro.magic", "parameter section magic byte is " + tos(f.pro_magic));
    f.param_end = f.param_off + 512ull * f.pro_blocks;
    uint64_t pos = f.param_off + 4;
    for (int guard = 0; guard < 100000; ++guard) {
        if (pos >= b.size()) return fail("rec.outside", "record chain runs beyond the end of the file");
        int nameLen = s8(b[pos]);
        if (nameLen == 0) { f.terminator_off = pos; f.fields.push_back({pos, 1, FK_TERMINATOR}); break; }
        if (pos + 2 > b.size()) return fail("rec.outside", "record header beyond the end of the file");
        int id = s8(b[pos + 1]);
        uint64_t an = static_cast<uint64_t>(std::abs(nameLen));
        if (pos + 2 + an + 2 > b.size()) return fail("rec.outside", "record name beyond the end of the file");
        std::string name(reinterpret_cast<const char *>(&b[pos + 2]), an);
        uint64_t nextField = pos + 2 + an;
        unsigned next = u16(b, nextField);
        f.fields.push_back({pos, 1, FK_REC_NAMELEN});
        f.fields.push_back({pos + 1, 1, FK_REC_ID});
        f.fields.push_back({pos + 2, an, FK_REC_NAME});
        f.fields.push_back({nextField, 2, FK_REC_NEXT});
        uint64_t q = nextField + 2;
        uint64_t recEnd = 0;
        if (id == 0) return fail("rec.id0", "record with id 0");
        if (id < 0) {
            if (q + 1 > b.size()) return fail("rec.outside", "group description length beyond the end of the file");
            unsigned dl = b[q];
            if (q + 1 + dl > b.size()) return fail("rec.outside", "group description beyond the end of the file");
            RefGroup g;
            g.name = name; g.locked = nameLen < 0; g.id = -id; g.rec_off = pos;
            g.desc.assign(reinterpret_cast<const char *>(&b[q + 1]), dl);
            f.fields.push_back({q, 1, FK_REC_DESCLEN});
            f.fields.push_back({q + 1, dl, FK_REC_DESC});
            f.groups.push_back(g);
            recEnd = q + 1 + dl;
        } else {
            if (q + 2 > b.size()) return fail("rec.outside", "parameter type beyond the end of the file");
            int type = s8(b[q]);
            if (!(type == -1 || type == 1 || type == 2 || type == 4)) return fail("rec.type", "parameter " + name + " has element type " + tos(type));
            unsigned nd = b[q + 1];
            if (nd > 7) return fail("rec.ndims", "parameter " + name + " has " + tos(nd) + " dimensions");
            if (q + 2 + nd > b.size()) return fail("rec.outside", "dimensions beyond the end of the file");
            RefParam p;
            p.name = name; p.locked = nameLen < 0; p.group_id = id; p.type = type; p.rec_off = pos; p.next_off_field = nextField;
            uint64_t count = 1;
            for (unsigned d = 0; d < nd; ++d) { p.dims.push_back(b[q + 2 + d]); count *= b[q + 2 + d]; f.fields.push_back({q + 2 + d, 1, FK_REC_DIM}); }
            uint64_t bytes = count * static_cast<uint64_t>(std::abs(type));
            uint64_t d0 = q + 2 + nd;
            if (d0 + bytes + 1 > b.size()) return fail("rec.outside", "parameter data beyond the end of the file");
            p.data_off = d0;
            p.raw.assign(b.begin() + static_cast<long>(d0), b.begin() + static_cast<long>(d0 + bytes));
            unsigned dl = b[d0 + bytes];
            if (d0 + bytes + 1 + dl > b.size()) return fail("rec.outside", "parameter description beyond the end of the file");
            p.desc.assign(reinterpret_cast<const char *>(&b[d0 + bytes + 1]), dl);
            f.fields.push_back({q, 1, FK_REC_TYPE});
            f.fields.push_back({q + 1, 1, FK_REC_NDIMS});
            f.fields.push_back({d0, bytes, FK_REC_DATA});
            f.fields.push_back({d0 + bytes, 1, FK_REC_DESCLEN});
            f.fields.push_back({d0 + bytes + 1, dl, FK_REC_DESC});
            f.params.push_back(p);
            recEnd = d0 + bytes + 1 + dl;
        }
        if (next == 0) { f.terminated_by_zero_next = true; f.terminator_off = recEnd; break; }
        uint64_t nextPos = nextField + next;
        if (nextPos != recEnd)
            return fail("rec.next-offset", "record '" + name + "' at " + tos(pos) + ": next-offset points to " + tos(nextPos) + ", the record ends at " + tos(recEnd));
        pos = nextPos;
    }
    // tag well-known values
    auto tag = [&](const char *g, const char *p, int kind) {
        const RefParam *q = f.param(g, p);
        if (q && !q->raw.empty()) f.fields.push_back({q->data_off, q->raw.size() < 4 ? q->raw.size() : (q->type == 4 ? 4u : 2u), kind});
    };
    tag("POINT", "USED", FK_VAL_POINT_USED); tag("POINT", "FRAMES", FK_VAL_POINT_FRAMES); tag("POINT", "RATE", FK_VAL_POINT_RATE);
    tag("POINT", "DATA_START", FK_VAL_POINT_DATA_START); tag("POINT", "SCALE", FK_VAL_POINT_SCALE);
    tag("ANALOG", "USED", FK_VAL_ANALOG_USED); tag("ANALOG", "RATE", FK_VAL_ANALOG_RATE);
    f.data_off = f.data_start ? h + 512ull * (f.data_start - 1) : 0;
    if (f.data_off && f.data_off < b.size()) f.fields.push_back({f.data_off, b.size() - f.data_off, FK_DATA});
    return "";
}

static void raw_to_values(const RefParam &p, SnapParam &s) {
    s.type = p.type;
    if (p.dims.empty()) s.dims.push_back(1); // scalar
    for (auto d : p.dims) s.dims.push_back(d);
    if (p.type == 1) for (auto v : p.raw) s.ints.push_back(s8(v));
    else if (p.type == 2) for (size_t i = 0; i + 1 < p.raw.size(); i += 2) s.ints.push_back(s16(static_cast<unsigned>(p.raw[i]) | (static_cast<unsigned>(p.raw[i + 1]) << 8)));
    else if (p.type == 4) for (size_t i = 0; i + 3 < p.raw.size(); i += 4) { uint32_t v; std::memcpy(&v, &p.raw[i], 4); s.floats.push_back(v); }
    else {
        std::vector<uint8_t> dd = p.dims;
        if (dd.empty()) dd.push_back(1);
        size_t L = dd[0];
        size_t n = 1;
        for (size_t d = 1; d < dd.size(); ++d) n *= dd[d];
        if (dd.size() == 1) {
            if (L != 0) {
                // ezc3d concatenates single-character C strings: a NUL cell contributes nothing
                std::string t;
                for (size_t i = 0; i < L; ++i) if (p.raw[i] != 0) t += static_cast<char>(p.raw[i]);
                s.strs.push_back(rtrim(t));
            }
            return;
        }
        for (size_t k = 0; k < n; ++k) {
            std::string t;
            for (size_t i = 0; i < L; ++i) if (p.raw[k * L + i] != 0) t += static_cast<char>(p.raw[k * L + i]);
            s.strs.push_back(rtrim(t));
        }
    }
}

bool ref_to_snapshot(const RefFile &f, const std::vector<uint8_t> &b, Snapshot &out, std::string *why) {
    out = Snapshot();
    out.h.zerosBefore = f.hdr_off; out.h.paramAddr = f.param_block; out.h.checksum = f.magic;
    out.h.nbPoints = f.n_points; out.h.nbAnalogsMeas = f.n_analog_meas;
    out.h.nbAnalogByFrame = f.subframes;
    out.h.nbAnalogs = f.subframes ? f.n_analog_meas / f.subframes : 0;
    out.h.first = static_cast<uint64_t>(f.first) - 1; out.h.last = static_cast<uint64_t>(f.last) - 1;
    out.h.nbFrames = (out.h.nbPoints == 0 && out.h.nbAnalogs == 0) ? 0 : out.h.last - out.h.first + 1;
    out.h.gap = f.gap; out.h.scale = static_cast<int32_t>(f.scale_bits); out.h.dataStart = f.data_start; out.h.rate = f.rate_bits;
    out.h.keyLabelPresent = f.key_label_present; out.h.firstBlockKeyLabel = f.first_block_key_label; out.h.fourChar = f.four_char;
    out.h.nbEvents = f.n_events;
    out.h.evTimes = f.ev_times;
    for (unsigned i = 0; i < 9; ++i) out.h.evDisp.push_back(static_cast<uint64_t>(f.ev_flags[2 * i]) | (static_cast<uint64_t>(f.ev_flags[2 * i + 1]) << 8));
    for (auto &l : f.ev_labels) out.h.evLabels.push_back(cstr(l));
    out.pStart = f.pro_start; out.pChecksum = f.pro_magic; out.pBlocks = f.pro_blocks; out.pProc = f.pro_proc;
    if (f.pro_start == 0 && f.pro_magic == 0) { out.pStart = 1; out.pChecksum = 0x50; }
    int maxId = 0;
    for (auto &g : f.groups) maxId = std::max(maxId, g.id);
    for (auto &p : f.params) maxId = std::max(maxId, p.group_id);
    out.groups.resize(static_cast<size_t>(maxId));
    for (auto &g : f.groups) {
        SnapGroup &sg = out.groups[static_cast<size_t>(g.id - 1)];
        sg.name = cstr(g.name); sg.desc = cstr(g.desc); sg.locked = g.locked;
    }
    for (auto &p : f.params) {
        SnapParam sp;
        sp.name = cstr(p.name); sp.desc = cstr(p.desc); sp.locked = p.locked;
        raw_to_values(p, sp);
        SnapGroup &sg = out.groups[static_cast<size_t>(p.group_id - 1)];
        bool replaced = false;
        for (auto &q : sg.params) if (q.name == sp.name) { q = sp; replaced = true; break; }
        if (!replaced) sg.params.push_back(sp);
    }
    // data
    uint64_t nF = 0;
    if (f.last >= f.first && (f.n_points || f.n_analog_meas)) nF = static_cast<uint64_t>(f.last) - f.first + 1;
    uint64_t per = 4ull * f.n_points + f.n_analog_meas;
    if (nF && f.data_off + nF * per * 4 > b.size()) { if (why) *why = "data section shorter than the header says"; return false; }
    std::vector<std::string> labels, alabels;
    {
        const SnapGroup *pg = nullptr, *ag = nullptr;
        for (auto &g : out.groups) { if (g.name == "POINT") pg = &g; if (g.name == "ANALOG") ag = &g; }
        if (pg) if (const SnapParam *l = pg->find("LABELS")) labels = l->strs;
        if (ag) if (const SnapParam *l = ag->find("LABELS")) alabels = l->strs;
    }
    unsigned nC = f.subframes ? f.n_analog_meas / f.subframes : 0;
    uint64_t off = f.data_off;
    out.frames.resize(nF);
    for (uint64_t fr = 0; fr < nF; ++fr) {
        SnapFrame &sf = out.frames[fr];
        sf.pts.resize(f.n_points);
        for (unsigned i = 0; i < f.n_points; ++i) {
            sf.pts[i].x = u32(b, off); sf.pts[i].y = u32(b, off + 4); sf.pts[i].z = u32(b, off + 8); sf.pts[i].r = u32(b, off + 12);
            off += 16;
            sf.pts[i].name = i < labels.size() ? labels[i] : "unlabeled_point_" + tos(i);
        }
        sf.subs.resize(f.subframes);
        for (unsigned k = 0; k < f.subframes; ++k) {
            sf.subs[k].resize(nC);
            for (unsigned c = 0; c < nC; ++c) {
                sf.subs[k][c].v = u32(b, off); off += 4;
                sf.subs[k][c].name = c < alabels.size() ? alabels[c] : "unlabeled_analog_" + tos(c);
            }
        }
    }
    return true;
}

std::string c03_check(const std::vector<uint8_t> &b, const Snapshot &mem, std::string *facet) {
    auto fail = [&](const std::string &fc, const std::string &d) { if (facet) *facet = fc; return d; };
    RefFile f;
    std::string fc, d = ref_decode(b, f, &fc);
    if (!d.empty()) return fail("decode/" + fc, "independent decoder rejects the saved file: " + d);
    if (f.hdr_off != 0) return fail("hdr.offset", "saved file starts with zero bytes");
    if (f.param_block < 2) return fail("hdr.param_block", "header parameter-block address " + tos(f.param_block));
    if (f.pro_magic != 0x50) return fail("pro.magic", "parameter section magic");
    if (f.terminated_by_zero_next) return fail("terminator", "record chain ends with a zero next-offset instead of the terminator");
    if (f.param_end > b.size()) return fail("pro.blocks", "parameter block count " + tos(f.pro_blocks) + " reaches beyond the file");
    if (f.terminator_off >= f.param_end) return fail("pro.blocks", "parameter block count " + tos(f.pro_blocks) + " does not cover the records (terminator at " + tos(f.terminator_off) + ")");
    for (uint64_t i = f.terminator_off; i < f.param_end; ++i)
        if (b[i] != 0) return fail("padding", "non-zero byte in the padding after the last record at offset " + tos(i));
    if (f.param_end % 512 != 0) return fail("padding", "parameter section does not end on a block boundary");
    // content
    Snapshot fs;
    std::string why;
    // the data section is located with the parameter block count (the only pointer that is right in every file
    // this library writes); the other two pointers are checked against it below
    RefFile f2 = f;
    f2.data_off = f.param_end;
    if (!ref_to_snapshot(f2, b, fs, &why)) return fail("data.short", why);
    // pointers
    if (f.data_start == 0 || 512ull * (f.data_start - 1) != f.param_end)
        return fail("hdr.data_start_word", "header data-start word is block " + tos(f.data_start) + ", the data section starts at block " + tos(f.param_end / 512 + 1));
    {
        const RefParam *ds = f.param("POINT", "DATA_START");
        if (!ds || ds->type != 2 || ds->raw.size() < 2) return fail("POINT.DATA_START", "POINT:DATA_START missing or not an integer");
        unsigned v = static_cast<unsigned>(ds->raw[0]) | (static_cast<unsigned>(ds->raw[1]) << 8);
        if (v == 0 || 512ull * (v - 1) != f.param_end)
            return fail("POINT.DATA_START", "POINT:DATA_START is block " + tos(v) + ", the data section starts at block " + tos(f.param_end / 512 + 1));
    }
    // two records of one group (or two groups) whose names are equal once stored: any reader keeps only one of them
    for (size_t i = 0; i < f.groups.size(); ++i)
        for (size_t j = i + 1; j < f.groups.size(); ++j)
            if (upper(f.groups[i].name) == upper(f.groups[j].name))
                return fail("duplicate-name-after-uppercasing/group", "two group records are both named '" + upper(f.groups[i].name) + "' in the file (distinct in memory only by letter case)");
    for (size_t i = 0; i < f.params.size(); ++i)
        for (size_t j = i + 1; j < f.params.size(); ++j)
            if (f.params[i].group_id == f.params[j].group_id && upper(f.params[i].name) == upper(f.params[j].name))
                return fail("duplicate-name-after-uppercasing/parameter", "two parameter records of one group are both named '" + upper(f.params[i].name) + "' in the file (distinct in memory only by letter case)");
    // names upper-case, lock as sign: compare the decoded tree with memory
    for (auto &g : f.groups) if (g.name != upper(g.name)) return fail("name-case", "group name '" + g.name + "' stored in lower case");
    for (auto &p : f.params) if (p.name != upper(p.name)) return fail("name-case", "parameter name '" + p.name + "' stored in lower case");
    {
        DiffOpts o;
        o.upper_names = true; o.skip_data_start = true; o.skip_prologue = true; o.skip_header = true; o.ignore_empty_subframes = true;
        std::string fc2, dd = diff_snapshots(mem, fs, o, &fc2);
        if (!dd.empty()) return fail("content/" + fc2, "decoded content differs from memory (memory vs file): " + dd);
    }
    // header vs memory and vs parameters
    if (f.n_points != (mem.h.nbPoints & 0xffff)) return fail("hdr.points", "header points " + tos(f.n_points) + " vs memory " + tos(mem.h.nbPoints));
    if (f.first != ((mem.h.first + 1) & 0xffff) || f.last != ((mem.h.last + 1) & 0xffff))
        return fail("hdr.first-last", "header first/last " + tos(f.first) + "/" + tos(f.last) + " vs memory " + tos(mem.h.first + 1) + "/" + tos(mem.h.last + 1));
    if (f.rate_bits != mem.h.rate) return fail("hdr.rate", "header rate bits differ from memory");
    if (f.subframes != (mem.h.nbAnalogByFrame & 0xffff)) return fail("hdr.subframes", "header sub-frames vs memory");
    if (f.n_analog_meas != (mem.h.nbAnalogsMeas & 0xffff)) return fail("hdr.analog-samples", "header analog samples per frame vs memory");
    auto ival = [&](const char *g, const char *p, int64_t &v) {
        const RefParam *q = f.param(g, p);
        if (!q || q->type != 2 || q->raw.size() < 2) return false;
        v = s16(static_cast<unsigned>(q->raw[0]) | (static_cast<unsigned>(q->raw[1]) << 8));
        return true;
    };
    auto fval = [&](const char *g, const char *p, float &v) {
        const RefParam *q = f.param(g, p);
        if (!q || q->type != 4 || q->raw.size() < 4) return false;
        std::memcpy(&v, q->raw.data(), 4);
        return true;
    };
    int64_t used = 0, frames = 0, aused = 0;
    float prate = 0, pscale = 0;
    if (ival("POINT", "USED", used) && static_cast<int64_t>(f.n_points) != (used & 0xffff)) return fail("hdr-vs-POINT.USED", "header points " + tos(f.n_points) + " != POINT:USED " + tos(used));
    if (ival("ANALOG", "USED", aused) && f.subframes >= 1 && static_cast<int64_t>(f.n_analog_meas) != (aused & 0xffff) * f.subframes)
        return fail("hdr-vs-ANALOG.USED", "header analog samples per frame " + tos(f.n_analog_meas) + " != ANALOG:USED x sub-frames");
    if (ival("POINT", "FRAMES", frames) && !mem.frames.empty() && static_cast<int64_t>(f.last) - static_cast<int64_t>(f.first) + 1 != (frames & 0xffff))
        return fail("hdr-vs-POINT.FRAMES", "header last-first+1 = " + tos(static_cast<int64_t>(f.last) - f.first + 1) + " != POINT:FRAMES " + tos(frames));
    if (fval("POINT", "RATE", prate)) {
        float hr = bits2f(f.rate_bits);
        if (!(std::fabs(static_cast<double>(hr) - static_cast<double>(prate)) <= 1e-4) && !(std::isnan(hr) && std::isnan(prate)))
            return fail("hdr-vs-POINT.RATE", "header rate " + tos(hr) + " != POINT:RATE " + tos(prate));
    }
    // data section size
    uint64_t per = 4ull * f.n_points + f.n_analog_meas;
    uint64_t expect = static_cast<uint64_t>(mem.frames.size()) * per * 4;
    if (b.size() - f.param_end != expect)
        return fail("data.size", "data section holds " + tos(b.size() - f.param_end) + " bytes, expected frames x (4 x points + channels x sub-frames) x 4 = " + tos(expect));
    // checked last: a known finding here must not hide anything above
    if (fval("POINT", "SCALE", pscale)) {
        float hs = bits2f(f.scale_bits);
        bool hneg = hs < 0, pneg = pscale < 0; // NaN is not negative: a reader testing "scale < 0" sees integer format
        if (hneg != pneg) return fail("hdr.scale-float-marker", "header scale word 0x" + [&] { char t[16]; std::snprintf(t, sizeof t, "%08x", f.scale_bits); return std::string(t); }() + " is not a negative float although POINT:SCALE is " + tos(pscale));
    }
    return "";
}

// ---------------------------------------------------------------------------------------
// encoder

namespace {
struct Rec {
    bool group = false;
    int id = 0; // positive group id
    std::string name, desc;
    bool locked = false;
    int type = 0;
    std::vector<uint8_t> dims, raw;
    bool patch_data_start = false;
};
void put16(std::vector<uint8_t> &o, unsigned v) { o.push_back(static_cast<uint8_t>(v & 255)); o.push_back(static_cast<uint8_t>((v >> 8) & 255)); }
void put32(std::vector<uint8_t> &o, uint32_t v) { for (int i = 0; i < 4; ++i) o.push_back(static_cast<uint8_t>((v >> (8 * i)) & 255)); }
Rec mkInt(int gid, const std::string &n, std::vector<int> v, bool scalar, bool locked = false) {
    Rec r; r.id = gid; r.name = n; r.type = 2; r.locked = locked;
    if (!scalar) r.dims.push_back(static_cast<uint8_t>(v.size()));
    for (int x : v) put16(r.raw, static_cast<unsigned>(x) & 0xffff);
    return r;
}
Rec mkFloat(int gid, const std::string &n, std::vector<uint32_t> v, bool scalar, bool locked = false) {
    Rec r; r.id = gid; r.name = n; r.type = 4; r.locked = locked;
    if (!scalar) r.dims.push_back(static_cast<uint8_t>(v.size()));
    for (uint32_t x : v) put32(r.raw, x);
    return r;
}
Rec mkStrs(int gid, const std::string &n, const std::vector<std::string> &v, size_t width) {
    Rec r; r.id = gid; r.name = n; r.type = -1;
    for (auto &s : v) width = std::max(width, s.size());
    r.dims.push_back(static_cast<uint8_t>(width));
    r.dims.push_back(static_cast<uint8_t>(v.size()));
    for (auto &s : v) { for (size_t i = 0; i < width; ++i) r.raw.push_back(i < s.size() ? static_cast<uint8_t>(s[i]) : ' '); }
    return r;
}
std::string genName(Rng &r, size_t maxLen) {
    static const char *A = "ABCDEFGHIJKLMNOPQRSTUVWXYZ_0123456789";
    size_t n = 1 + r.below(maxLen);
    std::string s;
    for (size_t i = 0; i < n; ++i) s += A[r.below(i == 0 ? 26 : 37)];
    return s;
}
} // namespace

EncLayout gen_layout(Rng &r) {
    EncLayout L;
    L.seed = r.next();
    if (r.chance(1, 4)) L.leading_zeros = r.chance(1, 2) ? 512 * static_cast<unsigned>(1 + r.below(3)) : static_cast<unsigned>(1 + r.below(700));
    L.zero_prologue = r.chance(1, 5);
    if (r.chance(1, 4)) L.param_block = 3 + static_cast<unsigned>(r.below(3));
    L.shuffle_groups = r.chance(1, 3);
    L.shuffle_params = r.chance(1, 3);
    L.sparse_ids = r.chance(1, 4);
    L.end_with_zero_next = r.chance(1, 4);
    L.empty_analog_group = r.chance(1, 8);
    L.pad_strings = true;
    if (r.chance(1, 4)) L.label_delta = static_cast<int>(r.below(5)) - 2;
    if (r.chance(1, 3)) L.first_frame = 1 + static_cast<unsigned>(r.below(2000));
    L.events = r.chance(1, 4);
    L.byte_params = r.chance(1, 4);
    L.three_d_params = r.chance(1, 4);
    L.long_desc = r.chance(1, 4);
    L.reserved_nonzero = r.chance(1, 6);
    return L;
}
EncContent gen_content(Rng &r) {
    EncContent C;
    C.points = r.chance(1, 6) ? 0 : static_cast<unsigned>(1 + r.below(r.chance(1, 10) ? 255 : 6));
    C.channels = r.chance(1, 3) ? 0 : static_cast<unsigned>(1 + r.below(r.chance(1, 10) ? 64 : 5));
    C.subframes = C.channels ? static_cast<unsigned>(1 + r.below(4)) : 0;
    C.frames = static_cast<unsigned>(r.below(r.chance(1, 10) ? 200 : 8));
    if (C.points == 0 && C.channels == 0) C.frames = 0;
    static const uint32_t rates[] = {0x42c80000u /*100*/, 0x42700000u /*60*/, 0x43480000u /*200*/, 0x42f00000u /*120*/, 0x3f800000u /*1*/};
    C.point_rate_bits = rates[r.below(5)];
    C.value_seed = r.next();
    return C;
}

std::string layout_to_text(const EncLayout &L, const EncContent &C) {
    std::ostringstream o;
    o << "layout{zeros=" << L.leading_zeros << " zero_prologue=" << L.zero_prologue << " param_block=" << L.param_block
      << " shuffle_groups=" << L.shuffle_groups << " shuffle_params=" << L.shuffle_params << " sparse_ids=" << L.sparse_ids
      << " zero_next_end=" << L.end_with_zero_next << " empty_analog=" << L.empty_analog_group << " label_delta=" << L.label_delta
      << " first_frame=" << L.first_frame << " events=" << L.events << " byte=" << L.byte_params << " 3d=" << L.three_d_params
      << " long_desc=" << L.long_desc << " reserved_nonzero=" << L.reserved_nonzero << "} content{points=" << C.points << " channels=" << C.channels << " subframes=" << C.subframes
      << " frames=" << C.frames << "}";
    return o.str();
}

std::vector<uint8_t> ref_encode(const EncLayout &L, const EncContent &C0) {
    EncContent C = C0;
    Rng r(L.seed);
    Rng vr(C.value_seed);
    if (L.empty_analog_group) { C.channels = 0; C.subframes = 0; }
    if (C.points == 0 && C.channels == 0) C.frames = 0;
    // group ids
    std::vector<std::string> gnames = {"POINT", "ANALOG", "FORCE_PLATFORM"};
    unsigned extraGroups = static_cast<unsigned>(r.below(3));
    for (unsigned i = 0; i < extraGroups; ++i) gnames.push_back("G" + genName(r, 8));
    std::vector<int> ids;
    for (size_t i = 0; i < gnames.size(); ++i) ids.push_back(static_cast<int>(i) + 1);
    if (L.sparse_ids) { int cur = 0; for (auto &id : ids) { cur += 1 + static_cast<int>(r.below(3)); id = cur; } }
    if (L.shuffle_groups) for (size_t i = ids.size(); i > 1; --i) std::swap(ids[i - 1], ids[r.below(i)]);
    std::vector<Rec> recs;
    for (size_t g = 0; g < gnames.size(); ++g) {
        Rec gr; gr.group = true; gr.id = ids[g]; gr.name = gnames[g]; gr.locked = r.chance(1, 5);
        if (r.chance(1, 2)) gr.desc = "group " + gnames[g];
        if (L.long_desc && r.chance(1, 2)) gr.desc = std::string(128 + r.below(128), 'd');
        if (L.force_group_desc >= 0) gr.desc = std::string(static_cast<size_t>(L.force_group_desc), 'g');
        recs.push_back(gr);
    }
    int PG = ids[0], AG = ids[1], FG = ids[2];
    std::vector<std::string> labels, alabels;
    int nl = static_cast<int>(C.points) + L.label_delta;
    if (nl < 0) nl = 0;
    if (nl > 255) nl = 255;
    for (int i = 0; i < nl; ++i) labels.push_back("M" + tos(i) + (r.chance(1, 3) ? genName(r, 6) : ""));
    for (unsigned i = 0; i < C.channels; ++i) alabels.push_back("A" + tos(i) + (r.chance(1, 3) ? genName(r, 6) : ""));
    std::vector<Rec> pr;
    pr.push_back(mkInt(PG, "USED", {static_cast<int>(C.points)}, true, true));
    pr.push_back(mkFloat(PG, "SCALE", {0xbf800000u}, true, true));
    pr.push_back(mkFloat(PG, "RATE", {C.point_rate_bits}, true, true));
    { Rec ds = mkInt(PG, "DATA_START", {0}, true, true); ds.patch_data_start = true; pr.push_back(ds); }
    pr.push_back(mkInt(PG, "FRAMES", {static_cast<int>(C.frames)}, true, true));
    pr.push_back(mkStrs(PG, "LABELS", labels, r.chance(1, 2) ? 8 + r.below(20) : 0));
    if (r.chance(3, 4)) pr.push_back(mkStrs(PG, "DESCRIPTIONS", std::vector<std::string>(labels.size(), ""), r.below(4)));
    if (r.chance(3, 4)) { Rec u; u.id = PG; u.name = "UNITS"; u.type = -1; u.dims = {4}; u.raw = {'m', 'm', ' ', ' '}; if (!L.pad_strings) { u.dims = {2}; u.raw = {'m', 'm'}; } pr.push_back(u); }
    if (!L.empty_analog_group) {
        pr.push_back(mkInt(AG, "USED", {static_cast<int>(C.channels)}, true, true));
        pr.push_back(mkStrs(AG, "LABELS", alabels, r.chance(1, 2) ? 6 + r.below(10) : 0));
        pr.push_back(mkFloat(AG, "GEN_SCALE", {0x3f800000u}, true));
        pr.push_back(mkFloat(AG, "SCALE", std::vector<uint32_t>(C.channels, 0x3f800000u), false));
        pr.push_back(mkInt(AG, "OFFSET", std::vector<int>(C.channels, 0), false));
        pr.push_back(mkStrs(AG, "UNITS", std::vector<std::string>(C.channels, "V"), 0));
        float arate = bits2f(C.point_rate_bits) * static_cast<float>(C.subframes);
        pr.push_back(mkFloat(AG, "RATE", {f2bits(arate)}, true, true));
        if (r.chance(1, 2)) pr.push_back(mkStrs(AG, "DESCRIPTIONS", std::vector<std::string>(C.channels, ""), 0));
    }
    pr.push_back(mkInt(FG, "USED", {0}, true));
    for (size_t g = 3; g < gnames.size(); ++g) {
        unsigned np = static_cast<unsigned>(1 + r.below(4));
        for (unsigned k = 0; k < np; ++k) {
            Rec p; p.id = ids[g]; p.name = genName(r, 12); p.locked = r.chance(1, 4);
            int kind = static_cast<int>(r.below(4));
            if (kind == 0 && !L.byte_params) kind = 1;
            if (kind == 0) { p.type = 1; unsigned n = static_cast<unsigned>(r.below(6)); p.dims = {static_cast<uint8_t>(n)}; for (unsigned i = 0; i < n; ++i) p.raw.push_back(static_cast<uint8_t>(vr.next())); }
            else if (kind == 1) {
                p.type = 2;
                if (L.three_d_params && r.chance(1, 2)) { p.dims = {static_cast<uint8_t>(1 + r.below(3)), static_cast<uint8_t>(1 + r.below(3)), static_cast<uint8_t>(1 + r.below(3))}; }
                else if (r.chance(1, 3)) p.dims = {};
                else p.dims = {static_cast<uint8_t>(r.below(5))};
                size_t n = 1; for (auto d : p.dims) n *= d;
                static const unsigned edge[] = {0, 1, 0x7f, 0x80, 0xff, 0x100, 0x7fff, 0x8000, 0xffff};
                for (size_t i = 0; i < n; ++i) put16(p.raw, vr.chance(1, 2) ? edge[vr.below(9)] : static_cast<unsigned>(vr.next() & 0xffff));
            } else if (kind == 2) {
                p.type = 4;
                if (L.three_d_params && r.chance(1, 2)) p.dims = {static_cast<uint8_t>(1 + r.below(3)), static_cast<uint8_t>(1 + r.below(2)), static_cast<uint8_t>(1 + r.below(2))};
                else if (r.chance(1, 3)) p.dims = {};
                else p.dims = {static_cast<uint8_t>(r.below(5))};
                size_t n = 1; for (auto d : p.dims) n *= d;
                for (size_t i = 0; i < n; ++i) put32(p.raw, gen_float_bits(vr));
            } else {
                p.type = -1;
                if (r.chance(1, 2)) { // 1-D padded string
                    std::string s = genName(r, 10);
                    if (r.chance(1, 8)) s.clear(); // an empty string stored as one dimension of size 0 (only a file can hold that shape)
                    size_t w = s.empty() ? 0 : s.size() + (L.pad_strings ? r.below(8) : 0);
                    p.dims = {static_cast<uint8_t>(w)};
                    for (size_t i = 0; i < w; ++i) p.raw.push_back(i < s.size() ? static_cast<uint8_t>(s[i]) : ' ');
                } else {
                    std::vector<std::string> v;
                    unsigned n = static_cast<unsigned>(r.below(4));
                    for (unsigned i = 0; i < n; ++i) v.push_back(genName(r, 8));
                    Rec q = mkStrs(p.id, p.name, v, r.below(4));
                    p.dims = q.dims; p.raw = q.raw;
                }
            }
            if (r.chance(1, 3)) p.desc = "about " + p.name;
            if (L.long_desc && r.chance(1, 2)) p.desc = std::string(128 + r.below(128), 'p');
            pr.push_back(p);
        }
    }
    if (L.shuffle_params) {
        for (size_t i = pr.size(); i > 1; --i) std::swap(pr[i - 1], pr[r.below(i)]);
        // interleave groups and parameters arbitrarily
        for (auto &p : pr) recs.insert(recs.begin() + static_cast<long>(r.below(recs.size() + 1)), p);
    } else {
        // each group followed by its parameters
        std::vector<Rec> ordered;
        for (auto &g : recs) { ordered.push_back(g); for (auto &p : pr) if (p.id == g.id) ordered.push_back(p); }
        recs = ordered;
    }
    // serialise the parameter section
    std::vector<uint8_t> ps;
    if (L.zero_prologue) { ps.push_back(0); ps.push_back(0); } else { ps.push_back(1); ps.push_back(0x50); }
    ps.push_back(0); // block count, patched
    ps.push_back(84);
    size_t dataStartPatch = 0;
    for (size_t k = 0; k < recs.size(); ++k) {
        const Rec &rc = recs[k];
        int nl2 = static_cast<int>(rc.name.size());
        ps.push_back(static_cast<uint8_t>(rc.locked ? -nl2 : nl2));
        ps.push_back(static_cast<uint8_t>(rc.group ? -rc.id : rc.id));
        for (char ch : rc.name) ps.push_back(static_cast<uint8_t>(ch));
        size_t nextAt = ps.size();
        put16(ps, 0);
        if (!rc.group) {
            ps.push_back(static_cast<uint8_t>(rc.type));
            ps.push_back(static_cast<uint8_t>(rc.dims.size()));
            for (auto d : rc.dims) ps.push_back(d);
            if (rc.patch_data_start) dataStartPatch = ps.size();
            for (auto v : rc.raw) ps.push_back(v);
        }
        ps.push_back(static_cast<uint8_t>(rc.desc.size()));
        for (char ch : rc.desc) ps.push_back(static_cast<uint8_t>(ch));
        unsigned next = static_cast<unsigned>(ps.size() - nextAt);
        if (k + 1 == recs.size() && L.end_with_zero_next) next = 0;
        ps[nextAt] = static_cast<uint8_t>(next & 255); ps[nextAt + 1] = static_cast<uint8_t>(next >> 8);
    }
    ps.push_back(0); // terminator
    while (ps.size() % 512) ps.push_back(0);
    unsigned blocks = static_cast<unsigned>(ps.size() / 512);
    ps[2] = static_cast<uint8_t>(blocks);
    unsigned dataBlock = L.param_block + blocks;
    if (dataStartPatch) { ps[dataStartPatch] = static_cast<uint8_t>(dataBlock & 255); ps[dataStartPatch + 1] = static_cast<uint8_t>(dataBlock >> 8); }

    std::vector<uint8_t> out(L.leading_zeros, 0);
    std::vector<uint8_t> hd(512, 0);
    hd[0] = static_cast<uint8_t>(L.param_block); hd[1] = 0x50;
    auto setw = [&](unsigned w, unsigned v) { hd[2 * (w - 1)] = static_cast<uint8_t>(v & 255); hd[2 * (w - 1) + 1] = static_cast<uint8_t>((v >> 8) & 255); };
    auto setd = [&](unsigned w, uint32_t v) { setw(w, v & 0xffff); setw(w + 1, v >> 16); };
    setw(2, C.points); setw(3, C.channels * C.subframes);
    setw(4, L.first_frame); setw(5, C.frames ? L.first_frame + C.frames - 1 : L.first_frame - 1 + 0);
    if (!C.frames) { setw(4, L.first_frame); setw(5, L.first_frame - 1); }
    setw(6, 10); setd(7, 0xbf800000u); setw(9, dataBlock); setw(10, C.subframes); setd(11, C.point_rate_bits);
    setw(150, 12345);
    if (L.events) {
        unsigned ne = static_cast<unsigned>(1 + r.below(18));
        setw(151, ne);
        for (unsigned e = 0; e < ne; ++e) {
            setd(153 + 2 * e, gen_float_bits(vr));
            hd[2 * (189 - 1) + e] = static_cast<uint8_t>(r.below(2));
            std::string lab = genName(r, 4);
            uint8_t padc = r.chance(1, 2) ? ' ' : 0; // writers pad short labels with blanks or with NULs
            for (size_t i = 0; i < 4; ++i) hd[2 * (199 - 1) + 4 * e + i] = i < lab.size() ? static_cast<uint8_t>(lab[i]) : padc;
        }
    }
    if (L.reserved_nonzero) {
        // words 13..147 and 235..256 are reserved: some writers leave data there
        Rng rr(L.seed ^ 0x5eedULL);
        unsigned n1 = 1 + static_cast<unsigned>(rr.below(8));
        for (unsigned k = 0; k < n1; ++k) hd[2 * (13 - 1) + rr.below(270)] = static_cast<uint8_t>(1 + rr.below(255));
        if (rr.chance(1, 2)) for (unsigned k = 0; k < 4; ++k) hd[2 * (13 - 1) + k] = 0xFF;
        unsigned n2 = static_cast<unsigned>(rr.below(4));
        for (unsigned k = 0; k < n2; ++k) hd[2 * (235 - 1) + rr.below(44)] = static_cast<uint8_t>(1 + rr.below(255));
    }
    out.insert(out.end(), hd.begin(), hd.end());
    out.resize(L.leading_zeros + 512ull * (L.param_block - 1), 0);
    out.insert(out.end(), ps.begin(), ps.end());
    for (unsigned f = 0; f < C.frames; ++f) {
        for (unsigned i = 0; i < C.points * 4; ++i) put32(out, gen_float_bits(vr));
        for (unsigned i = 0; i < C.channels * C.subframes; ++i) put32(out, gen_float_bits(vr));
    }
    return out;
}

} // namespace sim
