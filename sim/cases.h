// A case is one simulated run: plans (one per caller thread), faults, damage alternatives and
// schedule; it is a pure value and is what a replay file contains.
#pragma once
#include "plan.h"
#include "simsched.h"
#include "world.h"
#include <map>

namespace sim {

enum DamageKind : int { D_TRUNC = 0, D_ROT, D_CRASH, D_TORN, D_LOSTBLK, D_NKINDS };
struct Damage {
    int kind = D_TRUNC;
    int64_t a = 0, b = 0, c = 0; // TRUNC a=len ; ROT a=off b=val ; CRASH a=n writes ; TORN a=n b=j ; LOSTBLK a=block b=size-at-write-n c=0 zero/1 absent
};
const char *damage_name(int k);

struct Case {
    std::string prop, tier = "quick", config;
    uint64_t run_seed = 0, index = 0;
    uint32_t oracles = 0;
    std::vector<Plan> plans;
    std::vector<std::vector<Damage>> alts; // C16: each alternative is applied to the base image on its own
    SchedConfig sched;                      // C18
    bool arm_budgets = false;
    int epochs = 1;                         // C14: run the plan this many times under different allocator epochs
    // transient (not serialised)
    std::vector<std::string> alt_labels;
};

struct CaseResult {
    std::vector<Violation> viol;
    std::vector<std::string> notes;
    uint64_t trace_hash = 0, img_hash = 0;
    bool nontrivial = false;
    uint64_t evaluations = 1;
    RunStats st;
    std::string sample;
    std::map<std::string, uint64_t> extra; // mode-specific counters (residue, alt kinds, sched decisions, ...)
    int failing_alt = -1;
    std::vector<uint64_t> step_hashes; // per-step digests (C19: first diverging step)
};

Case gen_case(const std::string &prop, const std::string &tier, uint64_t verif_seed, uint64_t index);
CaseResult run_case(const Case &c, volatile uint64_t *progress = nullptr);
std::string case_to_text(const Case &c);
bool case_from_text(const std::string &t, Case &c, std::string *err);
std::string case_sample(const Case &c, size_t maxSteps = 12);
uint32_t oracles_for(const std::string &prop);
uint64_t run_seed_for(uint64_t verif_seed, const std::string &prop, uint64_t index);

} // namespace sim
