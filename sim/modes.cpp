// Per-property case generation and execution.
#include "cases.h"
#include "gen.h"
#include "refc3d.h"
#include "seams.h"
#include <algorithm>
#include <cstring>
#include <sstream>

namespace sim {

namespace {
template <class T> std::string tos(const T &v) { std::ostringstream o; o << v; return o.str(); }
static const char *DN[] = {"trunc", "rot", "crash", "torn", "lostblk"};
static const char *VENDORS[] = {"Qualisys", "Optotrak", "markers_analogs", "Vicon"};
} // namespace

const char *damage_name(int k) { return (k >= 0 && k < D_NKINDS) ? DN[k] : "?"; }

uint64_t run_seed_for(uint64_t verif_seed, const std::string &prop, uint64_t index) {
    return mix(mix(verif_seed, hash_str(prop)), index);
}

uint32_t oracles_for(const std::string &p) {
    if (p == "C01") return ORC_C01;
    if (p == "C03") return ORC_C03;
    if (p == "C04") return ORC_C04 | ORC_NOTE_C02;
    if (p == "C05") return ORC_C05;
    if (p == "C06") return ORC_C06;
    if (p == "C07") return ORC_C07;
    if (p == "C08") return ORC_C08;
    if (p == "C09") return ORC_C09;
    if (p == "C10") return ORC_C10;
    if (p == "C14") return ORC_C14;
    if (p == "C15") return ORC_C15;
    if (p == "C17") return ORC_C17;
    return 0;
}

static Profile profile_for(const std::string &p, Rng &r, uint64_t index) {
    Profile pf;
    // swarm: vary sizes and mixes per run
    pf.max_points = 1 + static_cast<unsigned>(r.below(8));
    pf.max_channels = static_cast<unsigned>(r.below(7));
    pf.max_frames = 1 + static_cast<unsigned>(r.below(14));
    pf.max_subframes = 1 + static_cast<unsigned>(r.below(5));
    if (p == "C01" || p == "C17") {
        pf.pct_dev_frame = 4; pf.pct_extend = 6; pf.final_save_reload = true; pf.n_custom_params = 5;
        pf.pct_mid_save = 12; pf.pct_mid_reload = 8; pf.pct_dev_col = 5;
        pf.benign_pct = (index % 2) ? 30 : 0;
    } else if (p == "C03") {
        pf.pct_dev_frame = 4; pf.pct_extend = 6; pf.n_custom_params = 5; pf.pct_mid_save = 10; pf.pct_mid_reload = 10; pf.pct_dev_col = 5;
    } else if (p == "C05") {
        pf.pct_shuffled_setup = 50; pf.pct_dev_frame = 15; pf.pct_cols = 40; pf.pct_decl_after_data = 30; pf.pct_mid_save = 6; pf.pct_mid_reload = 12;
        pf.fill_gaps_before_save = false; pf.pct_extend = 12; pf.pct_resubmit = 20;
    } else if (p == "C06") {
        pf.pct_extend = 25; pf.pct_replace = 30; pf.pct_cols = 40; pf.pct_decl_after_data = 25; pf.pct_dev_frame = 5; pf.pct_mid_save = 0; pf.pct_mid_reload = 0; pf.pct_print = 0;
        pf.pct_resubmit = 20;
    } else if (p == "C07") {
        pf.pct_dev_frame = 45; pf.pct_dev_col = 55; pf.pct_shuffled_setup = 45; pf.pct_cols = 50; pf.pct_mid_save = 4; pf.pct_mid_reload = 8; pf.pct_print = 0;
        pf.pct_space_names = 5;
    } else if (p == "C08") {
        pf.pct_caller_mutation = 50; pf.pct_resubmit = 50; pf.pct_cols = 50; pf.pct_dev_frame = 3; pf.pct_dev_col = 5; pf.pct_mid_save = 0; pf.pct_mid_reload = 0; pf.pct_print = 0;
    } else if (p == "C09") {
        pf.n_custom_params = 10; pf.pct_bad_param = 30; pf.pct_locks = 80; pf.max_frames = 3; pf.pct_mid_save = 0; pf.pct_mid_reload = 6;
        pf.pct_space_names = 8;
    } else if (p == "C10") {
        pf.pct_dev_frame = 40; pf.pct_dev_col = 60; pf.pct_bad_param = 45; pf.pct_locks = 60; pf.pct_cols = 50; pf.pct_decl_after_data = 40; pf.n_custom_params = 5;
        pf.pct_shuffled_setup = 40; pf.pct_mid_save = 0; pf.pct_mid_reload = 6; pf.pct_print = 0; pf.pct_space_names = 8;
    } else if (p == "C14") {
        pf.pct_mid_save = 70; pf.pct_print = 25; pf.pct_mid_reload = 15; pf.n_custom_params = 5; pf.fill_gaps_before_save = false;
    } else if (p == "C15" || p == "C16") {
        pf.pct_dev_frame = 3; pf.pct_mid_save = 0; pf.pct_mid_reload = 0; pf.pct_print = 0; pf.n_custom_params = 4; pf.pct_cols = 10; pf.pct_big = (p == "C15") ? 4 : 0;
        pf.max_frames = 1 + static_cast<unsigned>(r.below(6));
    } else if (p == "C13mix") {
        // everything at once: refused calls followed by saves, prints and restarts of the same object
        pf.pct_bad_param = 30; pf.pct_dev_frame = 20; pf.pct_dev_col = 30; pf.pct_cols = 40; pf.pct_decl_after_data = 25; pf.n_custom_params = 8;
        pf.pct_mid_save = 35; pf.pct_mid_reload = 20; pf.pct_print = 20; pf.pct_locks = 50; pf.pct_resubmit = 20; pf.pct_caller_mutation = 15;
        pf.pct_space_names = 5; pf.final_save_reload = true; pf.fill_gaps_before_save = false; pf.pct_extend = 15;
    } else if (p == "C18") {
        pf.pct_print = 0; pf.pct_mid_save = 25; pf.pct_mid_reload = 25; pf.pct_big = 0; pf.max_frames = 1 + static_cast<unsigned>(r.below(6));
    }
    return pf;
}

// history that ends in a save (+ restart) whose parameter-section length is steered
static void add_steering(Rng &r, Plan &plan, uint64_t index) {
    unsigned shift = static_cast<unsigned>((index * 7 + r.below(3)) % 512);
    unsigned v = std::min(shift, 255u), d = std::min(shift - v, 255u);
    Step st; st.op = OP_PARAM;
    st.s = {"STEER", "PAD", std::string(d, 'd'), std::string(v, 'v')};
    st.i = {3, 0, 0, -1, 0};
    // insert somewhere before the last save
    size_t pos = plan.steps.size();
    for (size_t k = plan.steps.size(); k > 0; --k) if (plan.steps[k - 1].op == OP_SAVE) { pos = k - 1; break; }
    plan.steps.insert(plan.steps.begin() + static_cast<long>(pos), st);
    if (shift - v - d) { Step s2 = st; s2.s = {"STEER", "PAD2", "", "x"}; plan.steps.insert(plan.steps.begin() + static_cast<long>(pos), s2); }
}

static Step loadStep(const std::string &src, const FaultSpec &f = FaultSpec()) {
    Step s; s.op = OP_LOAD; s.s.push_back(src); s.fault = f; return s;
}
static Step saveStep(int64_t id, const FaultSpec &f = FaultSpec()) {
    Step s; s.op = OP_SAVE; s.i = {id}; s.fault = f; return s;
}
static Step reloadStep(int64_t id, const FaultSpec &f = FaultSpec()) {
    Step s; s.op = OP_RELOAD; s.i = {id}; s.fault = f; return s;
}
static std::string pickSource(Rng &r, bool allowVicon) {
    unsigned k = static_cast<unsigned>(r.below(100));
    if (k == 99) return "missing"; // the path does not exist: the load throws, the history goes on without an object
    if (k < 3) return std::string("vendor:") + VENDORS[r.below(allowVicon && r.chance(1, 4) ? 4 : 3)];
    return "gen:" + tos(r.next() >> 1);
}

// ---------------------------------------------------------------------------------------
// C17 capacity limits

struct LimitItem { std::string tag; bool beyond; };

static LimitItem add_limit(Rng &r, Plan &plan, int which, int level, bool quick) {
    // level 0: L-1, 1: L, 2: L+1, 3: far beyond
    LimitItem it;
    it.beyond = level >= 2;
    static const char *LV[] = {"L-1", "L", "L+1", "far"};
    auto pstep = [&](const std::string &g, const std::string &n, const std::string &desc, int type, std::vector<int64_t> vals, std::vector<std::string> strs) {
        Step st; st.op = OP_PARAM; st.s = {g, n, desc};
        for (auto &s : strs) st.s.push_back(s);
        st.i = {type, 0, 0, -1, type == 3 ? 0 : static_cast<int64_t>(vals.size())};
        for (auto v : vals) st.i.push_back(v);
        return st;
    };
    switch (which) {
    case 0: { unsigned L[] = {254, 255, 256, 400}; plan.steps.push_back(pstep("LIMITS", "DESC", gen_text(r, L[level]), 1, {1, 2}, {})); it.tag = "desc255"; break; }
    case 1: { unsigned L[] = {126, 127, 128, 200}; plan.steps.push_back(pstep("LIMITS", std::string(L[level], 'N'), "", 1, {3}, {})); it.tag = "pname127"; break; }
    case 2: { unsigned L[] = {126, 127, 128, 200}; plan.steps.push_back(pstep(std::string(L[level], 'G'), "P", "", 1, {3}, {})); it.tag = "gname127"; break; }
    case 3: { unsigned L[] = {254, 255, 256, 300}; std::vector<int64_t> v; for (unsigned i = 0; i < L[level]; ++i) v.push_back(static_cast<int64_t>(i) - 100); plan.steps.push_back(pstep("LIMITS", "INTS", "", 1, v, {})); it.tag = "dim255.int"; break; }
    case 4: { unsigned L[] = {254, 255, 256, 300}; std::vector<std::string> v; for (unsigned i = 0; i < L[level]; ++i) v.push_back("s" + tos(i)); plan.steps.push_back(pstep("LIMITS", "STRS", "", 3, {}, v)); it.tag = "dim255.strcount"; break; }
    case 5: { unsigned L[] = {254, 255, 256, 300}; plan.steps.push_back(pstep("LIMITS", "LONGSTR", "", 3, {}, {gen_text(r, L[level]), "b"})); it.tag = "dim255.strlen"; break; }
    case 6: case 7: {
        unsigned L[] = {254, 255, 256, 300};
        Step rt; rt.op = OP_SET_RATE; rt.i = {0, 0x42c80000};
        plan.steps.push_back(rt);
        if (which == 7) { Step ra; ra.op = OP_SET_RATE; ra.i = {1, 0x42c80000}; plan.steps.push_back(ra); }
        for (unsigned i = 0; i < L[level]; ++i) { Step d; d.op = which == 6 ? OP_DECL_POINT : OP_DECL_ANALOG; d.s.push_back((which == 6 ? "p" : "c") + tos(i)); plan.steps.push_back(d); }
        Step b; b.op = OP_BULK_FRAMES; b.i = {2, static_cast<int64_t>(r.next() >> 1)}; plan.steps.push_back(b);
        it.tag = which == 6 ? "points255" : "channels255";
        break;
    }
    case 8: {
        unsigned L[] = {32766, 32767, 32768, 40000};
        if (quick && level == 3) level = 2;
        it.beyond = level >= 2;
        Step rt; rt.op = OP_SET_RATE; rt.i = {0, 0x42c80000}; plan.steps.push_back(rt);
        Step d; d.op = OP_DECL_POINT; d.s.push_back("only"); plan.steps.push_back(d);
        Step b; b.op = OP_BULK_FRAMES; b.i = {static_cast<int64_t>(L[level]), static_cast<int64_t>(r.next() >> 1)}; plan.steps.push_back(b);
        it.tag = "frames32767";
        break;
    }
    case 9: {
        int64_t V[4][2] = {{32766, -32767}, {32767, -32768}, {32768, -32769}, {65535, 100000}};
        plan.steps.push_back(pstep("LIMITS", "EXTREME", "", 1, {V[level][0], V[level][1], 0}, {}));
        it.tag = "int16";
        break;
    }
    case 10: {
        // parameter section of 254 / 255 / 256 / 300 blocks: big integer arrays, fine-tuned after a measuring pass
        it.tag = "blocks255";
        plan.flags |= (static_cast<uint64_t>(level) + 1) << 8; // resolved in gen_case (needs a measuring run)
        break;
    }
    case 14: {
        // group descriptions (only a file can bring them: the API has no setter): 252 .. 255 characters, all within the format;
        // loaded, then saved and restarted
        int GL[] = {254, 255, 253, 252};
        it.beyond = false;
        plan.steps.push_back(loadStep("lim:1:" + tos(2 + r.below(3)) + ":2:" + tos(GL[level])));
        it.tag = "gdesc255";
        level = level == 1 ? 1 : 0;
        break;
    }
    case 12: {
        // two dimensions at their limit in ONE parameter: n strings of m characters (255 x 255 = 65025 bytes still fit the
        // 16-bit record length)
        unsigned N[] = {254, 255, 256, 255}, M[] = {254, 255, 255, 300};
        std::vector<std::string> v;
        for (unsigned i = 0; i < N[level]; ++i) { std::string t(M[level], static_cast<char>('a' + i % 26)); t[0] = static_cast<char>('A' + i % 26); t[M[level] - 1] = static_cast<char>('0' + i % 10); v.push_back(t); }
        plan.steps.push_back(pstep("LIMITS", "TABLE", "", 3, {}, v));
        it.tag = "dim255.str2d";
        break;
    }
    case 13: {
        // the record itself: its 16-bit "offset to the next record" holds at most 65535. 255 x 128 integers (65280 bytes) and a
        // description that brings the record to 65534 / 65535 / 65536 bytes; far beyond: 255 x 129 integers
        unsigned rows = level == 3 ? 129 : 128;
        std::vector<int64_t> v;
        for (unsigned i = 0; i < 255 * rows; ++i) v.push_back(static_cast<int64_t>(i % 30000) - 15000);
        Step st = pstep("LIMITS", "BULK", std::string(level == 3 ? 0 : 247 + static_cast<unsigned>(level), 'd'), 1, v, {});
        st.i[3] = 2; st.i.insert(st.i.begin() + 4, {255, static_cast<int64_t>(rows)}); // explicit dimensions {255, rows}
        plan.steps.push_back(st);
        it.tag = "record65535";
        break;
    }
    case 11: {
        // last frame number 65534 / 65535 (not encodable beyond): reader-side limit, then save and restart
        unsigned last = level == 0 ? 65534 : 65535;
        it.beyond = false;
        unsigned frames = 3 + static_cast<unsigned>(r.below(4));
        plan.steps.push_back(loadStep("lim:" + tos(last - frames + 1) + ":" + tos(frames) + ":2"));
        it.tag = "lastframe65535";
        level = level == 0 ? 0 : 1;
        break;
    }
    }
    it.tag += std::string(".") + LV[level];
    return it;
}

// ---------------------------------------------------------------------------------------

static void measure(const Plan &plan, std::vector<uint8_t> &img, std::vector<WriteRec> &trace, Snapshot *snap = nullptr) {
    Plan p = plan;
    p.steps.push_back(saveStep(6));
    ExecCfg cfg;
    cfg.keep_images = true;
    cfg.actor = "measure";
    RunResult rr = run_plan(p, cfg);
    img.clear(); trace.clear();
    if (!rr.images.empty()) { img = rr.images.back(); trace = rr.traces.back(); if (snap) *snap = rr.save_snaps.back(); }
    disk_clear_prefix(disk_root() + "/measure/");
}

static void gen_c15(Rng &r, Case &c, bool thorough) {
    Plan &plan = c.plans[0];
    std::vector<uint8_t> img; std::vector<WriteRec> trace;
    measure(plan, img, trace);
    int64_t B = static_cast<int64_t>(img.size()), N = static_cast<int64_t>(trace.size());
    plan.notes.push_back("fault-free save: B=" + tos(B) + " bytes, N=" + tos(N) + " write calls");
    static const int OPEN_ERR[] = {2 /*ENOENT*/, 13 /*EACCES*/, 30 /*EROFS*/, 28 /*ENOSPC*/, 24 /*EMFILE*/};
    static const int BUD_ERR[] = {28 /*ENOSPC*/, 27 /*EFBIG*/, 122 /*EDQUOT*/};
    auto add = [&](FaultSpec f) { plan.steps.push_back(saveStep(static_cast<int64_t>(r.below(4)), f)); };
    for (int e : OPEN_ERR) { FaultSpec f; f.open_errno = e; add(f); }
    { FaultSpec f; f.dest_is_dir = true; add(f); } // the destination exists and is a directory
    std::vector<int64_t> ks;
    if (thorough && B <= 8192) { for (int64_t k = 0; k < B; ++k) ks.push_back(k); plan.notes.push_back("exhaustive: every byte offset 0.." + tos(B - 1) + " and every write call 1.." + tos(N)); }
    else {
        int64_t bnd[] = {0, 1, 2, 3, 4, 511, 512, 513, 1023, 1024, 1025, B - 2, B - 1, B / 2};
        for (int64_t k : bnd) if (k >= 0 && k < B) ks.push_back(k);
        for (auto &w : trace) { int64_t o = static_cast<int64_t>(w.off); if (r.chance(1, thorough ? 2 : 6) && o < B) { ks.push_back(o); if (o > 0) ks.push_back(o - 1); if (o + 1 < B) ks.push_back(o + 1); } }
        int extra = thorough ? 512 : 48;
        for (int k = 0; k < extra && B > 0; ++k) ks.push_back(static_cast<int64_t>(r.below(static_cast<uint64_t>(B))));
    }
    for (int64_t k : ks) { FaultSpec f; f.byte_budget = k; f.budget_errno = BUD_ERR[r.below(3)]; if (r.chance(1, 4)) f = [&] { FaultSpec g = benign_faults(r, 30); g.byte_budget = k; g.budget_errno = f.budget_errno; return g; }(); add(f); }
    std::vector<int64_t> ns;
    if (thorough || N <= 64) for (int64_t n = 1; n <= N; ++n) ns.push_back(n);
    else { ns = {1, 2, 3, N - 1, N}; for (int k = 0; k < 32; ++k) ns.push_back(1 + static_cast<int64_t>(r.below(static_cast<uint64_t>(N)))); }
    for (int64_t n : ns) { FaultSpec f; f.fail_write_call = n; f.fail_errno = r.chance(1, 2) ? 5 : 28; add(f); }
    // the destination cannot be positioned: not at all (FIFO, terminal: every lseek fails), or at one call of the save
    // (the writer seeks back to patch the offsets and block counts it could not know in advance, and asks for its
    // position before it pads). An index the save never reaches is one more negative control.
    { FaultSpec f; f.fail_seek_call = 0; add(f); }
    {
        int64_t bound = 3 * N + 8;
        std::vector<int64_t> sk;
        if (thorough) for (int64_t n = 1; n <= bound; ++n) sk.push_back(n);
        else { sk = {1, 2, 3}; for (int k = 0; k < 24; ++k) sk.push_back(1 + static_cast<int64_t>(r.below(static_cast<uint64_t>(bound)))); }
        for (int64_t n : sk) { FaultSpec f; f.fail_seek_call = n; add(f); }
        { FaultSpec f; f.fail_seek_call = 100000000; add(f); }
    }
    // negative controls: faults that never fire, benign faults
    { FaultSpec f; f.byte_budget = B; add(f); }
    { FaultSpec f; f.byte_budget = B + 1 + static_cast<int64_t>(r.below(1000)); add(f); }
    { FaultSpec f; f.fail_write_call = 100000000; add(f); } // a call index the save never reaches, whatever chunking is in force
    for (int k = 0; k < 3; ++k) add(benign_faults(r, 40));
}

static void gen_c16_alts(Rng &r, Case &c, const std::vector<uint8_t> &img, const std::vector<WriteRec> &trace, bool thorough) {
    uint64_t S = img.size();
    auto one = [&](Damage d, const std::string &label) { c.alts.push_back({d}); c.alt_labels.push_back(label); };
    RefFile rf;
    bool decoded = ref_decode(img, rf, nullptr).empty();
    uint64_t metaEnd = decoded && rf.param_end && rf.param_end <= S ? rf.param_end : std::min<uint64_t>(S, 4096);
    unsigned mode = static_cast<unsigned>(c.index % 4);
    // --- truncation
    if (mode == 0 || thorough) {
        if ((thorough && S <= 4096)) { for (uint64_t L = 0; L < S; ++L) one({D_TRUNC, static_cast<int64_t>(L), 0, 0}, "trunc"); c.config += " exhaustive-truncation"; }
        else {
            uint64_t lim = thorough ? metaEnd : 0;
            for (uint64_t L = 0; L < lim; ++L) one({D_TRUNC, static_cast<int64_t>(L), 0, 0}, "trunc");
            int extra = thorough ? 256 : 64;
            for (int k = 0; k < extra && S; ++k) {
                uint64_t L = r.chance(1, 2) ? r.below(metaEnd ? metaEnd : 1) : r.below(S);
                one({D_TRUNC, static_cast<int64_t>(L), 0, 0}, "trunc");
            }
            uint64_t b[] = {0, 1, 2, 3, 511, 512, 513, 515, 516, metaEnd - 1, metaEnd, metaEnd + 1, S - 1};
            for (uint64_t L : b) if (L < S) one({D_TRUNC, static_cast<int64_t>(L), 0, 0}, "trunc");
        }
    }
    // --- crash images of the file's own save
    if ((mode == 1 || thorough) && !trace.empty()) {
        size_t N = trace.size();
        size_t step = (thorough || N <= 96) ? 1 : N / 96 + 1;
        for (size_t n = 0; n <= N; n += step) one({D_CRASH, static_cast<int64_t>(n), 0, 0}, "crash");
        for (int k = 0; k < (thorough ? 128 : 24); ++k) {
            size_t n = 1 + r.below(N);
            size_t len = trace[n - 1].bytes.size();
            if (len > 1) one({D_TORN, static_cast<int64_t>(n), static_cast<int64_t>(1 + r.below(len - 1)), 0}, "torn");
        }
        // power loss without fsync: a subset of the 512-byte blocks never reached the disk
        uint64_t nb = (S + 511) / 512;
        for (int k = 0; k < (thorough ? 96 : 24) && nb; ++k) {
            std::vector<Damage> alt;
            unsigned cnt = 1 + static_cast<unsigned>(r.below(3));
            for (unsigned q = 0; q < cnt; ++q) alt.push_back({D_LOSTBLK, static_cast<int64_t>(r.below(nb)), 0, static_cast<int64_t>(r.below(2))});
            if (r.chance(1, 3)) alt.push_back({D_TRUNC, static_cast<int64_t>(512 * r.below(nb + 1)), 0, 0});
            c.alts.push_back(alt); c.alt_labels.push_back("lostblk");
        }
    }
    // --- rot
    if (mode >= 2 || thorough) {
        static const int VAL[] = {0, 1, 0x7f, 0x80, 0xff};
        if (decoded) {
            std::vector<Field> fields = rf.fields;
            size_t limit = thorough ? fields.size() : 60;
            std::vector<size_t> idx;
            for (size_t i = 0; i < fields.size(); ++i) if (fields[i].kind != FK_DATA && fields[i].len) idx.push_back(i);
            if (!thorough && idx.size() > limit) { for (size_t i = idx.size(); i > 1; --i) std::swap(idx[i - 1], idx[r.below(i)]); idx.resize(limit); }
            for (size_t i : idx) {
                const Field &fl = fields[i];
                uint64_t bytesInField = std::min<uint64_t>(fl.len, fl.kind == FK_REC_NAME || fl.kind == FK_REC_DESC || fl.kind == FK_REC_DATA || fl.kind == FK_HDR_EVENTS ? 2 : 4);
                for (uint64_t bo = 0; bo < bytesInField; ++bo)
                    for (int v : VAL) {
                        if (!thorough && !r.chance(1, 2)) continue;
                        one({D_ROT, static_cast<int64_t>(fl.off + bo), v, 0}, std::string("rot.") + field_kind_name(fl.kind));
                    }
                if (fl.len) one({D_ROT, static_cast<int64_t>(fl.off + r.below(fl.len)), static_cast<int64_t>(r.below(256)), 0}, std::string("rot.") + field_kind_name(fl.kind));
            }
        }
        if (decoded) {
            // semantic damage: the values of the POINT / ANALOG parameters the header updater and the data reader compute
            // with (rates, counts, scales): every byte of the first element x the boundary values, and whole floats replaced
            // by values at the edges of the conversions (a rate below 1, negative zero, NaN, infinity, a denormal, > 2^31)
            static const uint32_t FV[] = {0x3e800000u /*0.25*/, 0x80000000u /*-0*/, 0x7fc00000u /*NaN*/, 0x7f800000u /*inf*/, 0x00000001u /*denormal*/, 0x4f32d05eu /*3e9*/, 0xbf800000u /*-1*/};
            for (const RefParam &rp : rf.params) {
                std::string gname;
                for (const RefGroup &g : rf.groups) if (static_cast<int>(g.id) == rp.group_id) gname = g.name;
                if (gname != "POINT" && gname != "ANALOG") continue;
                if (rp.type < 1 || rp.raw.empty()) continue;
                unsigned w = static_cast<unsigned>(rp.type);
                for (unsigned bo = 0; bo < w && bo < rp.raw.size(); ++bo)
                    for (int v : VAL) {
                        if (!thorough && !r.chance(1, 2)) continue;
                        one({D_ROT, static_cast<int64_t>(rp.data_off + bo), v, 0}, "rot.shape-value");
                    }
                if (rp.type == 4 && rp.raw.size() >= 4)
                    for (uint32_t fv : FV) {
                        if (!thorough && !r.chance(1, 2)) continue;
                        std::vector<Damage> alt;
                        for (unsigned bo = 0; bo < 4; ++bo) alt.push_back({D_ROT, static_cast<int64_t>(rp.data_off + bo), static_cast<int64_t>((fv >> (8 * bo)) & 0xff), 0});
                        c.alts.push_back(alt); c.alt_labels.push_back("rot.shape-value");
                    }
            }
        }
        if (decoded && !rf.params.empty()) {
            // a record re-shaped into seven dimensions with a zero behind (or before) large ones: nothing to read, and a
            // reader that nests one loop per dimension may spin through 255^6 empty iterations
            static const uint8_t SHAPES[3][7] = {{255, 255, 255, 255, 255, 255, 0}, {0, 255, 255, 255, 255, 255, 255}, {255, 255, 255, 0, 255, 255, 255}};
            for (int k = 0; k < (thorough ? 12 : 3); ++k) {
                const RefParam &rp = rf.params[r.below(rf.params.size())];
                uint64_t nd = rp.data_off - rp.dims.size() - 1;
                if (nd + 8 >= S) continue;
                std::vector<Damage> alt;
                alt.push_back({D_ROT, static_cast<int64_t>(nd), 7, 0});
                const uint8_t *sh = SHAPES[r.below(3)];
                for (unsigned q = 0; q < 7; ++q) alt.push_back({D_ROT, static_cast<int64_t>(nd + 1 + q), sh[q], 0});
                c.alts.push_back(alt); c.alt_labels.push_back("rot.dims-with-zero");
            }
        }
        for (int k = 0; k < (thorough ? 256 : 48) && S; ++k) {
            std::vector<Damage> alt;
            unsigned cnt = 1 + static_cast<unsigned>(r.below(4));
            for (unsigned q = 0; q < cnt; ++q) {
                uint64_t off = r.chance(2, 3) ? r.below(metaEnd ? metaEnd : 1) : r.below(S);
                alt.push_back({D_ROT, static_cast<int64_t>(off), static_cast<int64_t>(r.chance(1, 2) ? VAL[r.below(5)] : static_cast<int>(r.below(256))), 0});
            }
            c.alts.push_back(alt); c.alt_labels.push_back("rot.random");
        }
    }
    // positive control: no damage at all (must load to the base content)
    c.alts.push_back({}); c.alt_labels.push_back("none");
}

Case gen_case(const std::string &prop, const std::string &tier, uint64_t verif_seed, uint64_t index) {
    Case c;
    c.prop = prop; c.tier = tier; c.index = index;
    c.run_seed = run_seed_for(verif_seed, prop, index);
    c.oracles = oracles_for(prop);
    bool thorough = tier == "thorough";
    Rng r(c.run_seed);
    std::string gp = prop; // generator family
    if (prop == "C19") {
        static const char *fam19[] = {"C01", "C03", "C04", "C01", "C14"};
        gp = fam19[index % 5];
        c.oracles = 0; // only the traces matter: they are compared across builds
        c.config = std::string("generator=") + gp;
    }
    if (prop == "C13") {
        static const char *fam[] = {"C01", "C05", "C07", "C10", "C04", "C09", "C08", "C14", "C15", "C03", "C06", "C17", "C13mix", "C13mix", "C13mix"};
        gp = fam[index % 15];
        c.oracles = oracles_for(gp); // oracles run too (their code paths use more accessors); only crashes count for C13
        c.config = std::string("generator=") + gp;
    }
    Plan plan;
    plan.prop = prop; plan.run_seed = c.run_seed; plan.fill_seed = mix(c.run_seed, 77) | 1;
    Profile pf = profile_for(gp, r, index);
    if (prop == "C19") { pf.benign_pct = 0; pf.pct_print = 30; pf.pct_big = 0; } // six builds incl. -O0: keep every case small
    if (gp == "C04") {
        unsigned k = static_cast<unsigned>(r.below(100));
        if (k < 30) { // lineage that starts from an API-built object
            pf.final_save_reload = true; pf.pct_mid_save = 0; pf.pct_mid_reload = 0;
            gen_history(r, pf, plan);
            c.config = "source=api";
        } else {
            std::string src = pickSource(r, prop != "C19" && (thorough || r.chance(1, 8)));
            plan.steps.push_back(loadStep(src, benign_faults(r, (prop != "C19" && (index % 2)) ? 30 : 0)));
            c.config = "source=" + src;
        }
        unsigned gens = 2 + static_cast<unsigned>(r.below(3));
        for (unsigned g = 0; g < gens; ++g) {
            plan.steps.push_back(saveStep(static_cast<int64_t>(g % 4), benign_faults(r, (index % 2) ? 30 : 0)));
            plan.steps.push_back(reloadStep(-1, benign_faults(r, (index % 2) ? 30 : 0)));
        }
        plan.steps.push_back(saveStep(5));
        if (r.chance(1, 4)) { Step p; p.op = OP_PRINT; plan.steps.push_back(p); }
    } else if (gp == "C03") {
        unsigned k3 = static_cast<unsigned>(r.below(100));
        if (k3 >= 25 && k3 < 45) {
            // a file of another writer (or a vendor file), loaded and then edited through the whole API: frames appended,
            // replaced, columns, rates - the header words such an object inherited (first frame, parameter block, ...)
            // meet the updaters
            std::string src = "gen:" + tos(r.next() >> 1);
            if (r.chance(1, thorough ? 10 : 40)) src = std::string("vendor:") + VENDORS[r.below(3)]; // a vendor file costs a second or two per case
            plan.steps.push_back(loadStep(src));
            Profile p2 = pf;
            if (src.compare(0, 7, "vendor:") == 0) { p2.pct_big = 0; p2.max_frames = std::min(p2.max_frames, 3u); p2.n_custom_params = std::min(p2.n_custom_params, 2u); }
            gen_history(r, p2, plan);
            c.config = "load-then-history " + src;
        } else if (k3 < 25) {
            std::string src = pickSource(r, false);
            plan.steps.push_back(loadStep(src));
            // load-then-edit
            unsigned ne = static_cast<unsigned>(r.below(4));
            for (unsigned e = 0; e < ne; ++e) plan.steps.push_back(make_param_step(r, pf, "EDITED", "E" + gen_name(r, 6) + tos(e), false));
            c.config = "load-then-edit " + src;
        } else {
            gen_history(r, pf, plan);
            c.config = "api";
        }
        { Step g; g.op = OP_FILL_GAPS; g.i = {static_cast<int64_t>(r.next() >> 1)}; plan.steps.push_back(g); }
        plan.steps.push_back(saveStep(7));
        add_steering(r, plan, index);
    } else if (gp == "C17") {
        bool quick = !thorough;
        int nItems = 15;
        int which = static_cast<int>(index % static_cast<uint64_t>(nItems));
        int level = static_cast<int>((index / static_cast<uint64_t>(nItems)) % 4);
        uint64_t grp = index / (static_cast<uint64_t>(nItems) * 4); // every item at every level once per group
        if (quick && which == 8 && grp % 4 != 0) which = 0; // the 32767-frame objects are slow: fewer of them in quick
        LimitItem a = add_limit(r, plan, which, level, quick);
        plan.tag = a.tag;
        bool shapeItem = which == 6 || which == 7 || which == 8 || which == 11 || which == 14;
        bool beyond = a.beyond;
        if (grp % 2 == 1 && which != 8 && which != 10 && which != 11 && which != 12 && which != 13 && which != 14) { // pairs
            int w2 = static_cast<int>(r.below(10));
            if (w2 == 8 || (w2 >= 6 && which >= 6)) w2 = 0;
            if (w2 != which) { LimitItem b = add_limit(r, plan, w2, static_cast<int>(r.below(4)), quick); plan.tag += "&" + b.tag; beyond = beyond || b.beyond; if (w2 >= 6 && w2 <= 8) shapeItem = true; }
        }
        if (beyond) plan.flags |= 1;
        // some ordinary content around it
        if (!shapeItem && r.chance(1, 2)) { // (never around a points/channels/frames item: its own declarations would push the count past the level the tag claims)
            Profile small = pf; small.max_frames = 3; small.pct_mid_save = 0; small.pct_mid_reload = 0; small.final_save_reload = false; small.pct_print = 0;
            small.pct_dev_frame = 0; small.pct_extend = 0;
            Plan tmp; gen_history(r, small, tmp);
            plan.steps.insert(plan.steps.begin(), tmp.steps.begin(), tmp.steps.end());
        }
        c.plans.push_back(plan);
        if ((plan.flags >> 8) & 0xff) {
            // blocks255: measure the base, then add integer-array parameters up to the target size
            unsigned lvl = static_cast<unsigned>((plan.flags >> 8) & 0xff) - 1;
            unsigned targetBlocks[] = {254, 255, 256, 300};
            std::vector<uint8_t> img; std::vector<WriteRec> tr;
            measure(c.plans[0], img, tr);
            RefFile rf;
            uint64_t used = 600;
            if (ref_decode(img, rf, nullptr).empty()) used = rf.terminator_off - rf.param_off + 1;
            uint64_t target = 512ull * targetBlocks[lvl] - 40; // lands inside the last block
            Plan &pl = c.plans[0];
            unsigned k = 0;
            while (used + 540 < target) {
                Step st; st.op = OP_PARAM; st.s = {"BIG", "A" + tos(k++), ""};
                st.i = {1, 0, 0, -1, 255};
                for (int q = 0; q < 255; ++q) st.i.push_back(q);
                used += 1 + 1 + st.s[1].size() + 2 + 1 + 1 + 1 + 510 + 1;
                if (k == 1) used += 1 + 1 + 3 + 2 + 1; // the group record "BIG"
                pl.steps.push_back(st);
            }
            if (target > used + 12) {
                uint64_t rest = target - used - (1 + 1 + 4 + 2 + 1 + 1 + 1 + 1);
                unsigned n = static_cast<unsigned>(std::min<uint64_t>(rest / 2, 255));
                Step st; st.op = OP_PARAM; st.s = {"BIG", "LAST", ""};
                st.i = {1, 0, 0, -1, static_cast<int64_t>(n)};
                for (unsigned q = 0; q < n; ++q) st.i.push_back(1);
                pl.steps.push_back(st);
            }
            pl.flags &= 0xff;
        } else if (!beyond && which != 8 && which != 11 && which != 12 && which != 13 && which != 14 && (grp / 2) % 3 == 1) {
            // the same content, its parameter section tuned to end just before / exactly on / just after a 512-byte block
            // boundary (the one place where "at the limit" meets the block structure): three parameters whose descriptions
            // (<= 255 each) take up the slack, sized after a measuring run
            static const unsigned DELTA[] = {0, 511, 1};
            unsigned delta = DELTA[(grp / 6) % 3];
            Plan &pl0 = c.plans[0];
            size_t first = pl0.steps.size();
            for (int q = 0; q < 3; ++q) { Step st; st.op = OP_PARAM; st.s = {"ALIGNMENT", "PAD" + tos(q), ""}; st.i = {1, 0, 0, -1, 1, 7}; pl0.steps.push_back(st); }
            std::vector<uint8_t> img; std::vector<WriteRec> tr;
            { Plan m = pl0; Step g; g.op = OP_FILL_GAPS; g.i = {1}; m.steps.push_back(g); measure(m, img, tr); }
            RefFile rf;
            if (ref_decode(img, rf, nullptr).empty()) {
                unsigned x = static_cast<unsigned>((delta + 512 - rf.terminator_off % 512) % 512);
                for (int q = 0; q < 3 && x; ++q) { unsigned d = std::min(x, 255u); pl0.steps[first + static_cast<size_t>(q)].s[2] = std::string(d, static_cast<char>('a' + q)); x -= d; }
                pl0.tag += "&align512." + tos(delta);
            }
        }
        Plan &pl = c.plans[0];
        { Step g; g.op = OP_FILL_GAPS; g.i = {static_cast<int64_t>(r.next() >> 1)}; pl.steps.push_back(g); }
        pl.steps.push_back(saveStep(7));
        pl.steps.push_back(reloadStep(-1));
        c.config = pl.tag;
        return c;
    } else if (gp == "C18") {
        unsigned T = 2 + static_cast<unsigned>(r.below(3));
        bool flow = r.chance(1, 3); // data flows between objects: every thread takes frames from one donor object (OP_ADOPT)
        for (unsigned t = 0; t < T; ++t) {
            Plan p; p.prop = prop; p.run_seed = mix(c.run_seed, t); p.fill_seed = plan.fill_seed;
            Rng tr(mix(c.run_seed, 1000 + t));
            Profile tp = profile_for("C18", tr, index);
            if (flow) { Step ad; ad.op = OP_ADOPT; ad.i = {static_cast<int64_t>(mix(c.run_seed, 77) >> 1)}; p.steps.push_back(ad); } // the same donor frame for all
            else if (tr.chance(1, 3)) p.steps.push_back(loadStep(pickSource(tr, false)));
            gen_history(tr, tp, p);
            if (flow) { Step ad; ad.op = OP_ADOPT; ad.i = {static_cast<int64_t>(tr.next() >> 1)}; p.steps.insert(p.steps.begin() + 1 + static_cast<long>(tr.below(p.steps.size())), ad); }
            p.steps.push_back(saveStep(7));
            p.steps.push_back(reloadStep(-1));
            // the read-only side of the API (getters by name) on the final object of every thread, and once mid-way
            for (int q = 0; q < 3; ++q) { Step lk; lk.op = OP_LOOKUP; lk.i = {static_cast<int64_t>(tr.next() >> 1)}; p.steps.push_back(lk); }
            { Step lk; lk.op = OP_LOOKUP; lk.i = {static_cast<int64_t>(tr.next() >> 1)}; p.steps.insert(p.steps.begin() + static_cast<long>(p.steps.size() / 2), lk); }
            c.plans.push_back(p);
        }
        c.sched.seed = mix(c.run_seed, 4242);
        c.sched.policy = static_cast<int>(r.below(3));
        c.sched.pct_depth = 1 + static_cast<int>(r.below(3));
        { static const unsigned AP[] = {0, 0, 1, 3, 7, 16, 64}; c.sched.alloc_period = AP[r.below(7)]; }
        c.config = "threads=" + tos(T) + " policy=" + tos(c.sched.policy) + " alloc_period=" + tos(c.sched.alloc_period) + (flow ? " donor" : "");
        return c;
    } else {
        if (gp == "C16") {
            unsigned k = static_cast<unsigned>(r.below(100));
            if (k < 25) { std::string src = pickSource(r, thorough && r.chance(1, 10)); plan.steps.push_back(loadStep(src)); c.config = "base=" + src; }
            else { gen_history(r, pf, plan); c.config = "base=api"; }
        } else {
            if ((gp == "C05" || gp == "C07" || gp == "C10" || gp == "C14" || gp == "C06" || gp == "C09" || gp == "C08" || gp == "C13mix") && r.chance(1, 6)) {
                std::string src = pickSource(r, false);
                plan.steps.push_back(loadStep(src)); // reload-then-edit states
                c.config = "start=" + src;
                if (src.compare(0, 7, "vendor:") == 0) { pf.pct_big = 0; pf.max_frames = std::min(pf.max_frames, 3u); pf.n_custom_params = std::min(pf.n_custom_params, 2u); } // hundreds of stored frames: keep the history short
            }
            gen_history(r, pf, plan);
        }
    }
    if (gp == "C07" && r.chance(1, 12)) {
        // a point rate that is not zero but below the 1e-4 Hz at which the header follows it: "no rate" guards must look at
        // POINT:RATE, not at the header. Only in histories without anything analog: next to an analog rate such a point rate
        // means tens of millions of sub-frames per frame (for the library and for the caller frames the executor builds)
        bool analog = false;
        for (const Step &st : plan.steps)
            if (st.op == OP_DECL_ANALOG || st.op == OP_COL_ANALOG || st.op == OP_LOAD || st.op == OP_RELOAD || (st.op == OP_SET_RATE && !st.i.empty() && st.i[0] == 1)) analog = true;
        if (!analog)
            for (Step &st : plan.steps)
                if (st.op == OP_SET_RATE && st.i.size() > 1 && st.i[0] == 0) { st.i[1] = 0x38500000; break; } // ~5e-5
    }
    if ((gp == "C10" || gp == "C09") && r.chance(1, 20) && !plan.steps.empty()) {
        // a parameter name beyond the 127 characters the file format can hold, sent to a group that does not exist yet: in
        // memory that is an ordinary call (what a save makes of it is C17's subject); a library that refuses it must refuse
        // it before the group is created
        Step st; st.op = OP_PARAM;
        st.s = {"LONGNAMES" + tos(r.below(100)), std::string(128 + r.below(12), 'N'), ""};
        st.i = {1, 0, 0, -1, 1, 7};
        plan.steps.insert(plan.steps.begin() + static_cast<long>(1 + r.below(plan.steps.size())), st);
    }
    c.plans.push_back(plan);
    if (gp == "C15") gen_c15(r, c, thorough);
    if (gp == "C16") {
        c.arm_budgets = true;
        std::vector<uint8_t> img; std::vector<WriteRec> tr;
        measure(c.plans[0], img, tr);
        gen_c16_alts(r, c, img, tr, thorough);
    }
    if (gp == "C14" && prop != "C19") c.epochs = 3;
    if (prop != "C19" && prop != "C16" && prop != "C15") {
        // most saves in real use go over an existing file: one save in three meets the previous save of that path or a
        // stale file of another size (the plan says which: i1 of the SAVE step)
        for (Plan &pl : c.plans)
            for (Step &st : pl.steps)
                if (st.op == OP_SAVE && st.i.size() == 1) {
                    unsigned k = static_cast<unsigned>(r.below(6));
                    int64_t len = 600 + static_cast<int64_t>(r.below(40000));
                    if (k == 0) st.i.push_back(-1);
                    else if (k == 1) st.i.push_back(len);
                }
    }
    if (prop == "C19" && !c.plans.empty() && r.chance(1, 4)) {
        // rates at the edges of the float -> int conversions the header updater performs
        // (point rate only, large side only: a tiny or non-finite point rate asks for millions of sub-frames per frame)
        static const uint32_t XR[] = {0x48435000u /*200000.25*/, 0x4e6e6b28u /*1e9*/, 0x4f000000u /*2^31*/, 0x4f32d05eu /*3e9*/, 0x47d1b7c0u /*107375.5*/, 0x48d1b717u /*429496.7*/};
        Step s3; s3.op = OP_SET_RATE; s3.i = {0, static_cast<int64_t>(XR[r.below(6)])};
        std::vector<Step> &st = c.plans[0].steps;
        st.insert(st.begin() + static_cast<long>(r.below(st.size() + 1)), s3);
    }
    return c;
}

// ---------------------------------------------------------------------------------------

static std::vector<uint8_t> apply_damage(const std::vector<uint8_t> &base, const std::vector<WriteRec> &trace, const std::vector<Damage> &alt) {
    std::vector<uint8_t> img = base;
    for (auto &d : alt) {
        switch (d.kind) {
        case D_TRUNC: if (static_cast<uint64_t>(d.a) < img.size()) img.resize(static_cast<size_t>(d.a)); break;
        case D_ROT: if (static_cast<uint64_t>(d.a) < img.size()) img[static_cast<size_t>(d.a)] = static_cast<uint8_t>(d.b); break;
        case D_CRASH: img = apply_trace(trace, static_cast<size_t>(d.a)); break;
        case D_TORN: img = apply_trace(trace, static_cast<size_t>(d.a), d.b); break;
        case D_LOSTBLK: {
            uint64_t off = 512ull * static_cast<uint64_t>(d.a);
            if (off < img.size()) {
                if (d.c && off + 512 >= img.size()) img.resize(static_cast<size_t>(off)); // the tail block never made it
                else for (uint64_t i = off; i < off + 512 && i < img.size(); ++i) img[static_cast<size_t>(i)] = 0;
            }
            break;
        }
        }
    }
    return img;
}

static void merge_stats(RunStats &a, const RunStats &b) {
    a.steps += b.steps; a.mutating_ok += b.mutating_ok; a.refused += b.refused; a.saves += b.saves; a.reloads += b.reloads;
    a.faults_fired += b.faults_fired; a.hard_fired += b.hard_fired; a.premise_broken += b.premise_broken; a.io_calls += b.io_calls;
    a.read_seam_calls += b.read_seam_calls;
    a.states.insert(b.states.begin(), b.states.end());
    for (auto &kv : b.bigrams) a.bigrams[kv.first] += kv.second;
    for (auto &kv : b.probes) a.probes[kv.first] += kv.second;
    a.worst_read_ratio = std::max(a.worst_read_ratio, b.worst_read_ratio);
    a.worst_heap_ratio = std::max(a.worst_heap_ratio, b.worst_heap_ratio);
}

CaseResult run_case(const Case &c, volatile uint64_t *progress) {
    CaseResult res;
    ExecCfg cfg;
    cfg.oracles = c.oracles;
    cfg.actor = "a0";
    const std::string &prop = c.prop;

    if (prop == "C18") {
        // the plans concurrently under the seeded scheduler FIRST (in a worker each case runs in its own process: whatever the
        // library initialises at first use is initialised by the threads), then each plan alone for the reference digests
        std::vector<uint64_t> solo, conc(c.plans.size(), 0);
        std::vector<std::function<void()>> bodies;
        std::vector<RunResult> rrs(c.plans.size());
        for (size_t t = 0; t < c.plans.size(); ++t)
            bodies.push_back([&, t] {
                ExecCfg tc; tc.oracles = 0; tc.actor = "t" + tos(t); tc.capture_print = false; tc.yield_between_steps = true;
                rrs[t] = run_plan(c.plans[t], tc);
            });
        // the donor object of OP_ADOPT steps: a pure function of the plans (a case without such a step has none)
        uint64_t donorSeed = 0;
        for (auto &pl : c.plans) for (auto &s : pl.steps) if (s.op == OP_ADOPT) donorSeed = mix(c.run_seed, 555) | 1;
        donor_make(donorSeed);
        SchedResult sr = run_scheduled(bodies, c.sched);
        for (size_t t = 0; t < c.plans.size(); ++t) disk_clear_prefix(disk_root() + "/t" + tos(t) + "/");
        for (size_t t = 0; t < c.plans.size(); ++t) {
            ExecCfg tc; tc.oracles = 0; tc.actor = "t" + tos(t); tc.capture_print = false;
            donor_make(donorSeed); // alone: a donor nobody else has touched
            RunResult rr = run_plan(c.plans[t], tc);
            solo.push_back(rr.trace_hash);
            merge_stats(res.st, rr.st);
            disk_clear_prefix(disk_root() + "/t" + tos(t) + "/");
        }
        uint64_t th = sr.schedule_hash;
        for (size_t t = 0; t < c.plans.size(); ++t) {
            conc[t] = rrs[t].trace_hash;
            th = mix(th, conc[t]);
            if (conc[t] != solo[t]) {
                // first differing step
                size_t k = 0;
                RunResult again; // solo again for the step-level comparison
                { ExecCfg tc; tc.oracles = 0; tc.actor = "t" + tos(t); tc.capture_print = false; disk_clear_prefix(disk_root() + "/t" + tos(t) + "/"); donor_make(donorSeed); again = run_plan(c.plans[t], tc); }
                while (k < again.recs.size() && k < rrs[t].recs.size() && again.recs[k].snap_hash == rrs[t].recs[k].snap_hash && again.recs[k].exc == rrs[t].recs[k].exc && again.recs[k].image_hash == rrs[t].recs[k].image_hash) ++k;
                std::string opn = k < c.plans[t].steps.size() ? op_name(c.plans[t].steps[k].op) : "?";
                Violation v; v.prop = "C18"; v.key = "C18/solo-equivalence/" + opn; v.step = static_cast<int>(k);
                v.detail = "thread " + tos(t) + " observed other results than when running alone, first at step " + tos(k) + " (" + opn + ")";
                {   // what differs, as far as the step records and the final objects tell
                    std::string why;
                    if (k < again.recs.size() && k < rrs[t].recs.size()) {
                        const StepRecord &a = again.recs[k], &b = rrs[t].recs[k];
                        if (a.exc != b.exc) why += " exception alone '" + a.exc + "' / concurrent '" + b.exc + "';";
                        if (a.threw != b.threw) why += " threw differs;";
                        if (a.image_hash != b.image_hash) why += " saved image differs;";
                        if (a.snap_hash != b.snap_hash) why += " object content differs;";
                        if (a.aux != b.aux) why += " aux differs;";
                    }
                    if (again.has_object && rrs[t].has_object) { std::string fc, d = diff_snapshots(again.final_snap, rrs[t].final_snap, DiffOpts(), &fc); if (!d.empty()) why += " final objects: " + d.substr(0, 200); }
                    v.detail += why;
                }
                res.viol.push_back(v);
            }
        }
        res.trace_hash = th;
        res.extra["sched.decisions"] = sr.decisions;
        res.extra["sched.switches"] = sr.switches;
        res.extra["sched.hash"] = sr.schedule_hash;
        for (int a = 0; a < Y_NSITES; ++a) for (int b = 0; b < Y_NSITES; ++b) if (sr.site_pairs[a][b]) res.extra["pair." + tos(a) + "-" + tos(b)] = sr.site_pairs[a][b];
        res.nontrivial = sr.switches >= 2;
        res.sample = c.config + " decisions=" + tos(sr.decisions) + " switches=" + tos(sr.switches);
        for (size_t t = 0; t < c.plans.size(); ++t) disk_clear_prefix(disk_root() + "/t" + tos(t) + "/");
        donor_drop();
        return res;
    }

    if (prop == "C16") {
        // base image (fault-free), then every damage alternative -> restart-load under budgets
        std::vector<uint8_t> base; std::vector<WriteRec> trace; Snapshot baseSnap;
        measure(c.plans[0], base, trace, &baseSnap);
        uint64_t th = hash_bytes(base.data(), base.size());
        res.evaluations = 0;
        for (size_t a = 0; a < c.alts.size(); ++a) {
            if (progress) *progress = a + 1;
            std::vector<uint8_t> img = apply_damage(base, trace, c.alts[a]);
            Plan lp; lp.prop = "C16"; lp.fill_seed = c.plans[0].fill_seed;
            lp.steps.push_back(loadStep("image"));
            ExecCfg lc; lc.oracles = 0; lc.actor = "dmg"; lc.image = &img; lc.arm_budgets = true;
            RunResult rr = run_plan(lp, lc);
            res.evaluations++;
            const StepRecord &rec = rr.recs[0];
            std::string label = a < c.alt_labels.size() ? c.alt_labels[a] : (c.alts[a].empty() ? "none" : damage_name(c.alts[a][0].kind));
            res.extra["alt." + label]++;
            th = mix(th, rr.trace_hash);
            BudgetState &bs = budget_state();
            if (bs.soft && !bs.tripped) {
                // the load went over its budget, the counts the file claims explain it, and it finished under the enlarged budget
                Violation v; v.prop = "C16"; v.key = std::string("C16/budget/") + bs.soft_kind + "/" + bs.soft_site; v.step = static_cast<int>(a);
                v.detail = std::string("load of a damaged ") + tos(img.size()) + "-byte file exceeded its " + bs.soft_kind + " budget in " + bs.soft_site +
                           " (explained by the " + tos(bs.claimed_values) + " values its header claims)";
                bool seen = false;
                for (auto &o : res.viol) if (o.key == v.key) seen = true;
                if (!seen) { res.viol.push_back(v); if (res.failing_alt < 0) res.failing_alt = static_cast<int>(a); }
                res.extra["budget.explained-by-claimed-counts"]++;
                bs.soft = false;
            }
            if (bs.tripped) {
                Violation v; v.prop = "C16"; v.key = std::string("C16/budget/") + bs.kind + "/" + bs.site; v.step = static_cast<int>(a);
                v.detail = std::string("load of a damaged ") + tos(img.size()) + "-byte file exceeded its " + bs.kind + " budget in " + bs.site;
                bool seen = false;
                for (auto &o : res.viol) if (o.key == v.key) seen = true;
                if (!seen) { res.viol.push_back(v); if (res.failing_alt < 0) res.failing_alt = static_cast<int>(a); }
                bs.tripped = false;
                disk_clear_prefix(disk_root() + "/dmg/");
                continue; // the other alternatives are still worth loading (a known budget finding must not hide a crash)
            }
            if (rec.threw && (rec.exc == "non_std" || rec.exc == "budget_read" || rec.exc == "budget_heap")) {
                Violation v; v.prop = "C16"; v.key = "C16/exception/" + rec.exc; v.step = static_cast<int>(a);
                v.detail = "load threw something that is not a standard exception";
                res.viol.push_back(v); res.failing_alt = static_cast<int>(a);
                break;
            }
            if (rec.threw) res.extra["refused." + rec.exc]++; else res.extra["loaded"]++;
            if (img == base && !base.empty()) {
                // damage left the file intact: must load to the base's content
                bool ok = !rec.threw && rr.has_object;
                if (ok) {
                    DiffOpts o; o.upper_names = true; o.skip_data_start = true; o.skip_prologue = true; o.skip_file_position = true;
                    std::string fc, d = diff_snapshots(baseSnap, rr.final_snap, o, &fc);
                    // compare against what the base object held only when the base came from the API (loaded bases differ legitimately in position facts)
                    if (!d.empty() && c.config == "base=api") res.notes.push_back("NOTE C16 positive control differs (C01 territory): " + d);
                } else {
                    Violation v; v.prop = "C16"; v.key = "C16/intact-file-refused/" + rec.exc; v.step = static_cast<int>(a);
                    v.detail = "an undamaged file the library saved itself is refused on load";
                    res.viol.push_back(v); res.failing_alt = static_cast<int>(a);
                    break;
                }
            }
            merge_stats(res.st, rr.st);
            disk_clear_prefix(disk_root() + "/dmg/");
        }
        res.trace_hash = th;
        res.nontrivial = res.evaluations > 1;
        if (c.config.find("exhaustive-truncation") != std::string::npos) res.extra["bases_with_every_truncation_length"] = 1;
        res.sample = c.config + " base=" + tos(base.size()) + "B alts=" + tos(c.alts.size());
        return res;
    }

    // single-plan modes
    const Plan &plan = c.plans[0];
    cfg.keep_images = c.epochs > 1 || prop == "C03";
    RunResult rr = run_plan(plan, cfg);
    res.viol = rr.viol;
    res.notes = rr.notes;
    for (auto &rec : rr.recs) res.step_hashes.push_back(mix(mix(rec.snap_hash, rec.image_hash), mix(hash_str(rec.exc), rec.aux + (rec.threw ? 1 : 0))));
    res.trace_hash = rr.trace_hash;
    merge_stats(res.st, rr.st);
    uint64_t ih = 0;
    for (auto &rec : rr.recs) if (rec.op == OP_SAVE) ih = mix(ih, rec.image_hash);
    res.img_hash = ih;
    if (prop == "C03" && !rr.images.empty()) {
        RefFile rf;
        if (ref_decode(rr.images.back(), rf, nullptr).empty()) res.extra["residue"] = (rf.terminator_off - rf.param_off) % 512 + 1000; // +1000: present
    }
    if (prop == "C17" && res.viol.empty()) {
        // within the limits a save must not be refused; beyond them a refusal is fine
        bool beyond = plan.flags & 1;
        for (size_t k = 0; k < rr.recs.size(); ++k)
            if (rr.recs[k].op == OP_SAVE && rr.recs[k].threw && !beyond) {
                Violation v; v.prop = "C17"; v.key = "C17/save-refused-within-limits/" + rr.recs[k].exc; v.step = static_cast<int>(k);
                v.detail = "content at or below the capacity limits was refused by save (" + rr.recs[k].exc + ")";
                res.viol.push_back(v);
            }
        if (beyond) for (auto &rec : rr.recs) if (rec.op == OP_SAVE && rec.threw) res.extra["beyond.refused"]++;
    }
    if (prop == "C17" && !plan.tag.empty()) {
        // key context: the limits that are exceeded (L+1 / far), or, when none is, every limit item with its level
        std::vector<std::string> items, beyondItems;
        std::string cur;
        for (char ch : plan.tag + "&") { if (ch == '&') { if (!cur.empty()) items.push_back(cur); cur.clear(); } else cur += ch; }
        for (auto &it : items) {
            size_t d = it.rfind('.');
            std::string lv = d == std::string::npos ? "" : it.substr(d + 1), name = d == std::string::npos ? it : it.substr(0, d);
            if (lv == "L+1" || lv == "far") beyondItems.push_back(name);
        }
        std::sort(beyondItems.begin(), beyondItems.end());
        beyondItems.erase(std::unique(beyondItems.begin(), beyondItems.end()), beyondItems.end());
        std::string ctx;
        if (!beyondItems.empty()) { ctx = "beyond:"; for (size_t k = 0; k < beyondItems.size(); ++k) ctx += (k ? "+" : "") + beyondItems[k]; }
        else { ctx = "within:"; for (size_t k = 0; k < items.size(); ++k) ctx += (k ? "+" : "") + items[k]; }
        for (auto &v : res.viol) if (v.prop == "C17") v.key += "/" + ctx;
    }
    if (c.epochs > 1 && res.viol.empty()) {
        // C14 (c): the same construction in other allocator epochs ("other processes") must write the same bytes
        for (int e = 1; e < c.epochs; ++e) {
            Plan p2 = plan;
            p2.fill_seed = mix(plan.fill_seed, static_cast<uint64_t>(e) * 7919) | 1;
            alloc_heap_shuffle(p2.fill_seed);
            ExecCfg c2 = cfg;
            c2.oracles = 0;
            disk_clear_prefix(disk_root() + "/a0/");
            RunResult r2 = run_plan(p2, c2);
            res.evaluations++;
            size_t n = std::min(rr.images.size(), r2.images.size());
            for (size_t k = 0; k < n; ++k)
                if (rr.images[k] != r2.images[k]) {
                    size_t off = 0;
                    while (off < rr.images[k].size() && off < r2.images[k].size() && rr.images[k][off] == r2.images[k][off]) ++off;
                    std::string region = off < 512 ? "header" : "body";
                    if (off < 512) { unsigned w = static_cast<unsigned>(off / 2 + 1); region = w >= 199 && w <= 234 ? "header.event-labels" : "header.word" + tos(w); }
                    Violation v; v.prop = "C14"; v.key = "C14/bytes-depend-on-fresh-memory/" + region; v.step = -1;
                    v.detail = "equal objects built under different heap contents saved different bytes, first at offset " + tos(off) + " of save #" + tos(k);
                    res.viol.push_back(v);
                    break;
                }
            if (!res.viol.empty()) break;
            if (rr.images.size() != r2.images.size() || rr.trace_hash != r2.trace_hash) {
                // a run whose observable trace depends on heap contents: report as harness-visible nondeterminism of the library
                Violation v; v.prop = "C14"; v.key = "C14/trace-depends-on-fresh-memory"; v.step = -1;
                v.detail = "the same plan produced a different trace under different heap contents";
                res.viol.push_back(v);
                break;
            }
        }
    }
    if (c.epochs > 1 && res.viol.empty()) {
        // C14 (d): saving is pure, so a history must write the same final bytes with and without its earlier saves/prints
        bool hasReload = false, hasSave = false;
        for (auto &st : plan.steps) { if (st.op == OP_RELOAD) hasReload = true; if (st.op == OP_SAVE || st.op == OP_PRINT) hasSave = true; }
        if (!hasReload && hasSave) {
            Plan withSaves = plan, withoutSaves = plan;
            withoutSaves.steps.clear();
            for (auto &st : plan.steps) if (st.op != OP_SAVE && st.op != OP_PRINT) withoutSaves.steps.push_back(st);
            Step fin; fin.op = OP_SAVE; fin.i = {6};
            withSaves.steps.push_back(fin); withoutSaves.steps.push_back(fin);
            ExecCfg c2 = cfg; c2.oracles = 0; c2.keep_images = true;
            disk_clear_prefix(disk_root() + "/a0/");
            RunResult ra = run_plan(withSaves, c2);
            disk_clear_prefix(disk_root() + "/a0/");
            RunResult rb = run_plan(withoutSaves, c2);
            res.evaluations += 2;
            if (ra.has_object && rb.has_object && !ra.images.empty() && !rb.images.empty() && !ra.recs.empty() && !rb.recs.empty() &&
                !ra.recs.back().threw && !rb.recs.back().threw && hash_snapshot(ra.final_snap) == hash_snapshot(rb.final_snap)) {
                res.extra["history-independence-compared"] = 1;
                if (ra.images.back() != rb.images.back()) {
                    size_t off = 0;
                    while (off < ra.images.back().size() && off < rb.images.back().size() && ra.images.back()[off] == rb.images.back()[off]) ++off;
                    Violation v; v.prop = "C14"; v.key = "C14/earlier-saves-change-later-bytes"; v.step = -1;
                    v.detail = "two equal objects (same history, one of them also saved/printed on the way) wrote different files, first at offset " + tos(off);
                    res.viol.push_back(v);
                }
            }
        }
    }
    res.nontrivial = rr.st.mutating_ok >= 1;
    if (prop == "C15") {
        res.nontrivial = rr.st.hard_fired >= 1; res.evaluations = rr.st.saves;
        for (auto &n : plan.notes) if (n.compare(0, 11, "exhaustive:") == 0) res.extra["objects_with_every_offset_and_call_enumerated"] = 1;
    }
    if (prop == "C01" || prop == "C17") res.nontrivial = res.nontrivial && rr.st.reloads >= 1;
    if (prop == "C04") res.nontrivial = rr.st.reloads >= 1; // a pure load -> save -> restart lineage makes no mutating call
    res.sample = c.config;
    disk_clear_prefix(disk_root() + "/a0/");
    return res;
}

// ---------------------------------------------------------------------------------------

std::string case_to_text(const Case &c) {
    std::ostringstream o;
    o << "case prop=" << c.prop << " tier=" << c.tier << " run_seed=" << c.run_seed << " index=" << c.index << " oracles=" << c.oracles
      << " budgets=" << (c.arm_budgets ? 1 : 0) << " epochs=" << c.epochs << "\n";
    o << "config " << c.config << "\n";
    if (c.prop == "C18") {
        o << "sched seed=" << c.sched.seed << " policy=" << c.sched.policy << " depth=" << c.sched.pct_depth << " alloc_period=" << c.sched.alloc_period << " replay=";
        for (auto ch : c.sched.replay) o << static_cast<char>('0' + ch);
        o << "\n";
    }
    for (size_t a = 0; a < c.alts.size(); ++a) {
        o << "alt";
        for (auto &d : c.alts[a]) o << " " << damage_name(d.kind) << ":" << d.a << ":" << d.b << ":" << d.c;
        if (c.alts[a].empty()) o << " none";
        if (a < c.alt_labels.size()) o << " #" << c.alt_labels[a];
        o << "\n";
    }
    for (auto &p : c.plans) o << plan_to_text(p);
    o << "endcase\n";
    return o.str();
}

bool case_from_text(const std::string &t, Case &c, std::string *err) {
    c = Case();
    std::istringstream in(t);
    std::string line;
    std::string planText;
    bool inPlan = false;
    while (std::getline(in, line)) {
        if (inPlan) {
            planText += line + "\n";
            if (line == "end") {
                Plan p;
                if (!plan_from_text(planText, p, err)) return false;
                c.plans.push_back(p);
                planText.clear(); inPlan = false;
            }
            continue;
        }
        if (line.compare(0, 5, "plan ") == 0) { inPlan = true; planText = line + "\n"; continue; }
        if (line.compare(0, 5, "case ") == 0) {
            std::istringstream ls(line.substr(5));
            std::string kv;
            while (ls >> kv) {
                size_t e = kv.find('=');
                if (e == std::string::npos) continue;
                std::string k = kv.substr(0, e), v = kv.substr(e + 1);
                if (k == "prop") c.prop = v; else if (k == "tier") c.tier = v;
                else if (k == "run_seed") c.run_seed = std::strtoull(v.c_str(), nullptr, 10);
                else if (k == "index") c.index = std::strtoull(v.c_str(), nullptr, 10);
                else if (k == "oracles") c.oracles = static_cast<uint32_t>(std::strtoul(v.c_str(), nullptr, 10));
                else if (k == "budgets") c.arm_budgets = v == "1";
                else if (k == "epochs") c.epochs = std::atoi(v.c_str());
            }
        } else if (line.compare(0, 7, "config ") == 0) c.config = line.substr(7);
        else if (line.compare(0, 6, "sched ") == 0) {
            std::istringstream ls(line.substr(6));
            std::string kv;
            while (ls >> kv) {
                size_t e = kv.find('=');
                if (e == std::string::npos) continue;
                std::string k = kv.substr(0, e), v = kv.substr(e + 1);
                if (k == "seed") c.sched.seed = std::strtoull(v.c_str(), nullptr, 10);
                else if (k == "policy") c.sched.policy = std::atoi(v.c_str());
                else if (k == "depth") c.sched.pct_depth = std::atoi(v.c_str());
                else if (k == "alloc_period") c.sched.alloc_period = static_cast<unsigned>(std::atoi(v.c_str()));
                else if (k == "replay") for (char ch : v) c.sched.replay.push_back(static_cast<uint8_t>(ch - '0'));
            }
        } else if (line.compare(0, 3, "alt") == 0) {
            std::istringstream ls(line.substr(3));
            std::string tok;
            std::vector<Damage> alt;
            std::string label;
            while (ls >> tok) {
                if (tok == "none") continue;
                if (tok[0] == '#') { label = tok.substr(1); continue; }
                Damage d;
                size_t p1 = tok.find(':');
                std::string kn = tok.substr(0, p1);
                for (int k = 0; k < D_NKINDS; ++k) if (kn == DN[k]) d.kind = k;
                std::sscanf(tok.c_str() + p1 + 1, "%ld:%ld:%ld", &d.a, &d.b, &d.c);
                alt.push_back(d);
            }
            c.alts.push_back(alt); c.alt_labels.push_back(label);
        } else if (line == "endcase") break;
    }
    if (c.plans.empty()) { if (err) *err = "no plan"; return false; }
    return true;
}

std::string case_sample(const Case &c, size_t maxSteps) {
    std::ostringstream o;
    o << c.prop << "#" << c.index << " [" << c.config << "]";
    for (size_t t = 0; t < c.plans.size(); ++t) {
        o << (c.plans.size() > 1 ? " | thread " + tos(t) + ":" : ":");
        size_t n = 0;
        for (auto &s : c.plans[t].steps) {
            if (n++ >= maxSteps) { o << " ...(" << c.plans[t].steps.size() << " steps)"; break; }
            o << " " << op_name(s.op);
            if (s.op == OP_FRAME_BUILD && s.i.size() > 1 && s.i[1]) o << "(dev" << s.i[1] << ")";
            if (s.op == OP_FRAME_SUBMIT && s.i.size() > 1 && s.i[1]) o << "(idx-mode" << s.i[1] << ")";
            if ((s.op == OP_DECL_POINT || s.op == OP_DECL_ANALOG || s.op == OP_LOAD) && !s.s.empty()) o << "(" << s.s[0].substr(0, 16) << ")";
            if (s.op == OP_SAVE && s.fault.any_hard()) o << "(fault)";
        }
    }
    if (!c.alts.empty()) o << " ; " << c.alts.size() << " damage alternatives";
    return o.str();
}

} // namespace sim
