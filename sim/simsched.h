// Seeded scheduler for C18: real threads, exactly one runnable at a time; the choice of
// who runs next is made at every yield point from a PRNG (or replayed from a recorded list).
#pragma once
#include <cstdint>
#include <functional>
#include <string>
#include <vector>

namespace sim {

enum YieldSite : int {
    Y_STEP = 0,      // plan step boundary
    Y_READ_PRE = 1,  // before istream::read issued by ezc3d
    Y_READ_POST = 2, // after it (bytes are in the scratch buffer, not yet converted)
    Y_OPEN = 3, Y_CLOSE = 4, Y_SYSREAD = 5, Y_SYSWRITE = 6, Y_SEEK = 7,
    Y_ALLOC = 8,     // every k-th heap allocation made by library code (plain variant; k is part of the schedule)
    Y_NSITES = 9
};

// No-op unless the calling thread belongs to a running scheduled session.
void yield_point(int site);
bool in_scheduled_thread();
int sched_self(); // thread index inside the session, -1 otherwise

struct SchedConfig {
    uint64_t seed = 1;
    int policy = 0;                  // 0 uniform, 1 PCT-like priorities, 2 long bursts
    int pct_depth = 2;
    std::vector<uint8_t> replay;     // non-empty: replay these choices verbatim
    uint64_t max_decisions = 200000; // safety cap; beyond it threads run to completion round-robin
    unsigned alloc_period = 0;       // 0: no yields at allocations; k: the calling thread yields at every k-th allocation it makes
};

struct SchedResult {
    std::vector<uint8_t> choices;   // thread chosen at each decision
    uint64_t decisions = 0;
    uint64_t switches = 0;          // decisions where the chosen thread differs from the yielder
    uint64_t schedule_hash = 0;
    uint64_t site_pairs[Y_NSITES][Y_NSITES] = {}; // (site of yielder, site where chosen thread was parked)
};

// Runs bodies[i] on thread i under the scheduler; returns when all have finished.
SchedResult run_scheduled(const std::vector<std::function<void()>> &bodies, const SchedConfig &cfg);

// allocator seam -> scheduler: called for every allocation of a scheduled thread that is not inside harness code
void alloc_yield_hook();
bool in_harness_scope();

// TSan: hide harness-internal synchronisation / shared harness state from the race detector.
// (in every variant it also marks "inside harness code": no allocation yields while a harness lock may be held)
struct HarnessScope {
    HarnessScope();
    ~HarnessScope();
};

} // namespace sim
