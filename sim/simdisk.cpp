#include "simdisk.h"
#include "prng.h"
#include "simsched.h"
#ifdef SIM_VALGRIND
#include <valgrind/memcheck.h>
#endif

#include <cerrno>
#include <cstdio>
#include <cstring>
#include <map>
#include <set>
#include <memory>
#include <mutex>
#include <sys/uio.h>
#include <sys/ioctl.h>
#include <cstdarg>
#include <unistd.h>
#include <dirent.h>
#include <sys/stat.h>

namespace sim {

namespace {

struct SimFile {
    std::vector<uint8_t> data;
};
struct OpenFile {
    std::shared_ptr<SimFile> f;
    uint64_t pos = 0;
    bool readable = false, writable = false, append = false;
};

struct OpCtx {
    bool active = false;
    FaultSpec spec;
    OpStats st;
    Rng rng{1};
    bool last_was_eintr = false;
    std::vector<WriteRec> trace;
};

std::mutex g_mu;
std::map<std::string, std::shared_ptr<SimFile>> g_files;
std::map<int, OpenFile> g_open;
std::set<std::string> g_dirs;
DiskTotals g_tot;
std::string g_real_root;
thread_local OpCtx t_op;
thread_local bool t_undef = false;
thread_local uint64_t t_undef_off = 0;

bool is_sim_path(const char *p) { return p && std::strncmp(p, "/sim/", 5) == 0; }

} // namespace

#ifdef SIM_NO_WRAP
bool disk_is_simulated() { return false; }
#else
bool disk_is_simulated() { return g_real_root.empty(); }
#endif
std::string disk_root() { return g_real_root.empty() ? std::string("/sim") : g_real_root; }
void disk_set_real_root(const std::string &d) { g_real_root = d; }

void disk_put(const std::string &path, const std::vector<uint8_t> &bytes) {
    if (!is_sim_path(path.c_str())) {
        FILE *f = std::fopen(path.c_str(), "wb");
        if (f) { if (!bytes.empty()) std::fwrite(bytes.data(), 1, bytes.size(), f); std::fclose(f); }
        return;
    }
    HarnessScope hs;
    std::lock_guard<std::mutex> lk(g_mu);
    auto f = std::make_shared<SimFile>();
    f->data = bytes;
    g_files[path] = f;
}
bool disk_get(const std::string &path, std::vector<uint8_t> &bytes) {
    if (!is_sim_path(path.c_str())) {
        FILE *f = std::fopen(path.c_str(), "rb");
        if (!f) return false;
        bytes.clear();
        unsigned char buf[65536];
        size_t n;
        while ((n = std::fread(buf, 1, sizeof buf, f)) > 0) bytes.insert(bytes.end(), buf, buf + n);
        std::fclose(f);
        return true;
    }
    HarnessScope hs;
    std::lock_guard<std::mutex> lk(g_mu);
    auto it = g_files.find(path);
    if (it == g_files.end()) return false;
    bytes = it->second->data;
    return true;
}
bool disk_exists(const std::string &path) {
    if (!is_sim_path(path.c_str())) return ::access(path.c_str(), F_OK) == 0;
    HarnessScope hs;
    std::lock_guard<std::mutex> lk(g_mu);
    return g_files.count(path) != 0;
}
void disk_remove(const std::string &path) {
    if (!is_sim_path(path.c_str())) { ::unlink(path.c_str()); return; }
    HarnessScope hs;
    std::lock_guard<std::mutex> lk(g_mu);
    g_files.erase(path);
}
void disk_set_dir(const std::string &path, bool isDir) {
    HarnessScope hs;
    std::lock_guard<std::mutex> lk(g_mu);
    if (isDir) g_dirs.insert(path); else g_dirs.erase(path);
}
void disk_mkdirs(const std::string &dir) {
    if (is_sim_path(dir.c_str()) || dir.compare(0, 4, "/sim") == 0) return;
    std::string cur;
    for (size_t i = 0; i <= dir.size(); ++i) {
        if (i == dir.size() || dir[i] == '/') { if (!cur.empty()) ::mkdir(cur.c_str(), 0755); }
        if (i < dir.size()) cur += dir[i];
    }
}
void disk_clear_prefix(const std::string &prefix) {
    if (!is_sim_path(prefix.c_str())) {
        // real directory (C19 driver): remove the files directly inside it
        DIR *d = ::opendir(prefix.c_str());
        if (!d) return;
        while (struct dirent *e = ::readdir(d)) {
            if (e->d_name[0] == '.') continue;
            std::string f = prefix + e->d_name;
            ::unlink(f.c_str());
        }
        ::closedir(d);
        return;
    }
    HarnessScope hs;
    std::lock_guard<std::mutex> lk(g_mu);
    for (auto it = g_files.begin(); it != g_files.end();)
        if (it->first.compare(0, prefix.size(), prefix) == 0) it = g_files.erase(it); else ++it;
}

void disk_begin_op(const FaultSpec &spec) {
    t_op = OpCtx();
    t_op.active = true;
    t_op.spec = spec;
    t_op.rng.reseed(spec.benign_seed ? spec.benign_seed : 1);
}
OpStats disk_end_op(std::vector<WriteRec> *trace) {
    OpStats st = t_op.st;
    if (trace) *trace = std::move(t_op.trace);
    t_op = OpCtx();
    HarnessScope hs;
    std::lock_guard<std::mutex> lk(g_mu);
    g_tot.opens += st.opens; g_tot.write_calls += st.write_calls; g_tot.read_calls += st.read_calls;
    g_tot.seeks += st.seeks; g_tot.bytes_written += st.bytes_accepted; g_tot.bytes_read += st.bytes_read;
    g_tot.f_open_fail += st.f_open_fail; g_tot.f_budget += st.f_budget; g_tot.f_eio += st.f_eio;
    g_tot.f_short_write += st.f_short_write; g_tot.f_eintr_w += st.f_eintr_w; g_tot.f_eintr_r += st.f_eintr_r;
    g_tot.f_short_read += st.f_short_read; g_tot.f_seek += st.f_seek;
    return st;
}
bool disk_take_undefined_write(uint64_t *off) {
    bool u = t_undef;
    if (u && off) *off = t_undef_off;
    t_undef = false;
    return u;
}
DiskTotals disk_totals() {
    HarnessScope hs;
    std::lock_guard<std::mutex> lk(g_mu);
    return g_tot;
}
void disk_reset_totals() {
    HarnessScope hs;
    std::lock_guard<std::mutex> lk(g_mu);
    g_tot = DiskTotals();
}

std::vector<uint8_t> apply_trace(const std::vector<WriteRec> &trace, size_t n, int64_t torn) {
    std::vector<uint8_t> img;
    if (n > trace.size()) n = trace.size();
    for (size_t i = 0; i < n; ++i) {
        const WriteRec &r = trace[i];
        size_t len = r.bytes.size();
        if (i + 1 == n && torn >= 0 && static_cast<size_t>(torn) < len) len = static_cast<size_t>(torn);
        if (r.off + len > img.size()) img.resize(r.off + len, 0);
        std::memcpy(img.data() + r.off, r.bytes.data(), len);
    }
    return img;
}

// ---------------------------------------------------------------------------------------
// the simulated system calls (called from the wrappers below with g_mu NOT held)

namespace {

ssize_t sim_write(int fd, const struct iovec *iov, int cnt) {
    yield_point(Y_SYSWRITE);
    HarnessScope hs;
    std::lock_guard<std::mutex> lk(g_mu);
    auto it = g_open.find(fd);
    if (it == g_open.end()) { errno = EBADF; return -1; }
    OpenFile &of = it->second;
    if (!of.writable) { errno = EBADF; return -1; }
    size_t total = 0;
    for (int i = 0; i < cnt; ++i) total += iov[i].iov_len;
    OpCtx &op = t_op;
    size_t allowed = total;
    if (op.active) {
        op.st.write_calls++;
        if (op.spec.fail_write_call >= 0 && static_cast<int64_t>(op.st.write_calls) == op.spec.fail_write_call) {
            op.st.f_eio++; op.st.hard_fired = true; errno = op.spec.fail_errno; return -1;
        }
        if (op.spec.eintr_pct && !op.last_was_eintr && op.rng.below(100) < op.spec.eintr_pct) {
            op.last_was_eintr = true; op.st.f_eintr_w++; errno = EINTR; return -1;
        }
        op.last_was_eintr = false;
        if (op.spec.byte_budget >= 0) {
            int64_t remaining = op.spec.byte_budget - static_cast<int64_t>(op.st.bytes_accepted);
            if (remaining <= 0 && total > 0) {
                op.st.f_budget++; op.st.hard_fired = true; errno = op.spec.budget_errno; return -1;
            }
            if (static_cast<int64_t>(allowed) > remaining) allowed = static_cast<size_t>(remaining);
        }
        if (op.spec.short_write_pct && allowed > 1 && op.rng.below(100) < op.spec.short_write_pct) {
            allowed = 1 + static_cast<size_t>(op.rng.below(allowed - 1));
            op.st.f_short_write++;
        }
    }
    if (of.append) of.pos = of.f->data.size();
#ifdef SIM_VALGRIND
    {   // definedness of every byte handed to the OS (memcheck tracks it through the filebuf's copies)
        uint64_t before = 0;
        for (int i = 0; i < cnt && !t_undef; ++i) {
            uintptr_t bad = VALGRIND_CHECK_MEM_IS_DEFINED(iov[i].iov_base, iov[i].iov_len);
            if (bad) { t_undef = true; t_undef_off = of.pos + before + (bad - reinterpret_cast<uintptr_t>(iov[i].iov_base)); }
            before += iov[i].iov_len;
        }
    }
#endif
    WriteRec rec;
    rec.off = of.pos;
    rec.bytes.reserve(allowed);
    size_t left = allowed;
    for (int i = 0; i < cnt && left > 0; ++i) {
        size_t n = iov[i].iov_len < left ? iov[i].iov_len : left;
        const uint8_t *p = static_cast<const uint8_t *>(iov[i].iov_base);
        rec.bytes.insert(rec.bytes.end(), p, p + n);
        left -= n;
    }
    if (of.pos + allowed > of.f->data.size()) of.f->data.resize(of.pos + allowed, 0);
    if (allowed) std::memcpy(of.f->data.data() + of.pos, rec.bytes.data(), allowed);
    of.pos += allowed;
    if (op.active) { op.st.bytes_accepted += allowed; op.trace.push_back(std::move(rec)); }
    return static_cast<ssize_t>(allowed);
}

ssize_t sim_read(int fd, void *buf, size_t n) {
    yield_point(Y_SYSREAD);
    HarnessScope hs;
    std::lock_guard<std::mutex> lk(g_mu);
    auto it = g_open.find(fd);
    if (it == g_open.end()) { errno = EBADF; return -1; }
    OpenFile &of = it->second;
    if (!of.readable) { errno = EBADF; return -1; }
    OpCtx &op = t_op;
    size_t avail = of.pos < of.f->data.size() ? of.f->data.size() - of.pos : 0;
    size_t take = n < avail ? n : avail;
    if (op.active) {
        op.st.read_calls++;
        if (op.spec.eintr_pct && !op.last_was_eintr && op.rng.below(100) < op.spec.eintr_pct) {
            op.last_was_eintr = true; op.st.f_eintr_r++; errno = EINTR; return -1;
        }
        op.last_was_eintr = false;
        if (op.spec.short_read_pct && take > 1 && op.rng.below(100) < op.spec.short_read_pct) {
            take = 1 + static_cast<size_t>(op.rng.below(take - 1));
            op.st.f_short_read++;
        }
        op.st.bytes_read += take;
    }
    if (take) std::memcpy(buf, of.f->data.data() + of.pos, take);
    of.pos += take;
    return static_cast<ssize_t>(take);
}

off64_t sim_lseek(int fd, off64_t off, int whence) {
    yield_point(Y_SEEK);
    HarnessScope hs;
    std::lock_guard<std::mutex> lk(g_mu);
    auto it = g_open.find(fd);
    if (it == g_open.end()) { errno = EBADF; return -1; }
    OpenFile &of = it->second;
    if (t_op.active && of.writable) {
        t_op.st.seek_calls_w++;
        int64_t k = t_op.spec.fail_seek_call;
        if (k == 0 || (k > 0 && static_cast<int64_t>(t_op.st.seek_calls_w) == k)) {
            t_op.st.f_seek++; t_op.st.hard_fired = true; errno = ESPIPE; return -1;
        }
    }
    int64_t base = 0;
    if (whence == SEEK_SET) base = 0;
    else if (whence == SEEK_CUR) base = static_cast<int64_t>(of.pos);
    else if (whence == SEEK_END) base = static_cast<int64_t>(of.f->data.size());
    else { errno = EINVAL; return -1; }
    int64_t np = base + off;
    if (np < 0) { errno = EINVAL; return -1; }
    of.pos = static_cast<uint64_t>(np);
    if (t_op.active) t_op.st.seeks++;
    return np;
}

bool fd_is_sim(int fd) {
    HarnessScope hs;
    std::lock_guard<std::mutex> lk(g_mu);
    return g_open.count(fd) != 0;
}

} // namespace
} // namespace sim

#ifndef SIM_NO_WRAP
extern "C" {
FILE *__real_fopen64(const char *, const char *);
int __real_fclose(FILE *);
ssize_t __real_read(int, void *, size_t);
ssize_t __real_write(int, const void *, size_t);
ssize_t __real_writev(int, const struct iovec *, int);
off64_t __real_lseek64(int, off64_t, int);

FILE *__wrap_fopen64(const char *path, const char *mode) {
    using namespace sim;
    if (!is_sim_path(path)) return __real_fopen64(path, mode);
    yield_point(Y_OPEN);
    bool w = std::strchr(mode, 'w') != nullptr, a = std::strchr(mode, 'a') != nullptr,
         r = std::strchr(mode, 'r') != nullptr, plus = std::strchr(mode, '+') != nullptr;
    std::shared_ptr<SimFile> f;
    {
        HarnessScope hs;
        std::lock_guard<std::mutex> lk(g_mu);
        OpCtx &op = t_op;
        if (op.active) op.st.opens++;
        if ((w || a || plus) && op.active && op.spec.open_errno) {
            op.st.f_open_fail++; op.st.hard_fired = true;
            errno = op.spec.open_errno;
            return nullptr;
        }
        if (g_dirs.count(path)) {
            if (op.active) { op.st.f_open_fail++; op.st.hard_fired = true; }
            errno = EISDIR;
            return nullptr;
        }
        auto it = g_files.find(path);
        if (r && !w && !a) {
            if (it == g_files.end()) { errno = ENOENT; return nullptr; }
            f = it->second;
        } else {
            if (it == g_files.end()) { f = std::make_shared<SimFile>(); g_files[path] = f; }
            else f = it->second;
            if (w) f->data.clear();
        }
    }
    FILE *h = __real_fopen64("/dev/null", "r+");
    if (!h) return nullptr;
    OpenFile of;
    of.f = f;
    of.readable = r || plus;
    of.writable = w || a || plus;
    of.append = a;
    {
        HarnessScope hs;
        std::lock_guard<std::mutex> lk(g_mu);
        g_open[fileno(h)] = of;
    }
    return h;
}

int __wrap_fclose(FILE *fp) {
    using namespace sim;
    int fd = fileno(fp);
    bool simfd = false;
    {
        HarnessScope hs;
        std::lock_guard<std::mutex> lk(g_mu);
        auto it = g_open.find(fd);
        if (it != g_open.end()) { g_open.erase(it); simfd = true; }
    }
    if (simfd) yield_point(Y_CLOSE);
    return __real_fclose(fp);
}

ssize_t __wrap_read(int fd, void *buf, size_t n) {
    if (!sim::fd_is_sim(fd)) return __real_read(fd, buf, n);
    return sim::sim_read(fd, buf, n);
}
ssize_t __wrap_write(int fd, const void *buf, size_t n) {
    if (!sim::fd_is_sim(fd)) return __real_write(fd, buf, n);
    struct iovec v;
    v.iov_base = const_cast<void *>(buf);
    v.iov_len = n;
    return sim::sim_write(fd, &v, 1);
}
ssize_t __wrap_writev(int fd, const struct iovec *iov, int cnt) {
    if (!sim::fd_is_sim(fd)) return __real_writev(fd, iov, cnt);
    return sim::sim_write(fd, iov, cnt);
}
int __real_rename(const char *, const char *);
// "write to a side file, then rename": the rename has to work (and to be able to fail) on the simulated disk too
int __wrap_rename(const char *from, const char *to) {
    using namespace sim;
    if (!is_sim_path(from) || !is_sim_path(to)) return __real_rename(from, to);
    HarnessScope hs;
    std::lock_guard<std::mutex> lk(g_mu);
    OpCtx &op = t_op;
    auto it = g_files.find(from);
    if (it == g_files.end()) { errno = ENOENT; return -1; }
    if (g_dirs.count(to)) {
        if (op.active) { op.st.f_open_fail++; op.st.hard_fired = true; }
        errno = EISDIR;
        return -1;
    }
    g_files[to] = it->second;
    g_files.erase(it);
    return 0;
}
int __wrap_remove(const char *path);
int __real_remove(const char *);
int __wrap_remove(const char *path) {
    using namespace sim;
    if (!is_sim_path(path)) return __real_remove(path);
    HarnessScope hs;
    std::lock_guard<std::mutex> lk(g_mu);
    if (g_files.erase(path)) return 0;
    errno = ENOENT;
    return -1;
}
int __real_ioctl(int, unsigned long, ...);
// libstdc++'s showmanyc() (in_avail / readsome) asks FIONREAD: answer it for simulated files
int __wrap_ioctl(int fd, unsigned long req, ...) {
    va_list ap;
    va_start(ap, req);
    void *arg = va_arg(ap, void *);
    va_end(ap);
    if (req == FIONREAD && sim::fd_is_sim(fd)) {
        sim::HarnessScope hs;
        std::lock_guard<std::mutex> lk(sim::g_mu);
        auto it = sim::g_open.find(fd);
        if (it != sim::g_open.end()) {
            uint64_t size = it->second.f->data.size(), pos = it->second.pos;
            *static_cast<int *>(arg) = static_cast<int>(pos < size ? (size - pos > 0x7fffffff ? 0x7fffffff : size - pos) : 0);
            return 0;
        }
    }
    return __real_ioctl(fd, req, arg);
}
off64_t __wrap_lseek64(int fd, off64_t off, int whence) {
    if (!sim::fd_is_sim(fd)) return __real_lseek64(fd, off, whence);
    return sim::sim_lseek(fd, off, whence);
}
}
#endif
